"""C12 — subscribers hear about every change, and only about changes.

Independent judgement: real AirTouch4 / AirTouch5 objects initialised by a scripted console, subscribers (`sub at/ac/zone`,
`unsub`, some raising) placed anywhere, then changed / unchanged / partial status, timer, error-text and version frames with a
`view` before and after each.  The oracle is the public object model itself plus the bytes of the frames (record layouts of the vendor documents):

  * a subscriber of entity E MUST be invoked (NOTIFY line with E's identifier and its sid) when an exposed attribute in its
    scope differs between the two views (AirTouch: its own attributes; zone: the zone; AC-state-only: the AC's own attributes;
    AC general: the AC's own attributes or any attribute of one of its zones);
  * it MUST NOT be invoked when, for every entity in its scope, the frame either does not mention the entity or merely repeats
    the report last made for it (the documented bytes of the entity's record identical; timer bytes identical; same error text
    with no changed status in between; same version frame), and not more often than the frame contains changed reports in its scope;
  * NOTIFY lines of anything that is not subscribed (never, twice-then-once, unsubscribed), or with a wrong identifier, are
    violations; two subscribers of the same entity and kind hear exactly the same number of calls (subscribing twice = once);
  * raising subscribers: the script is run a second time with the same subscribers not raising; every VIEW and every NOTIFY line
    must be the same in both runs (a raising subscriber neither silences the others nor disturbs later frames).
Tie: apigen<g>.gen_script scripts through apicheck.compare (real object vs the Lean API model)."""
import multiprocessing
import os

import apiref
import consolesim as C
from props import c10

LEAN_MODULES = c10.lean_modules("C12")
LEVEL = "proof"

AT_ID = "s" + b"at-id-1".hex()


# ------------------------------------------------------------------------------------------------ scripts
def suffix(sid):
    """sids r* raise; o* are one-shot (they unsubscribe themselves inside their first callback); c* send a request of their own
    from inside the callback"""
    return {"r": " raise", "o": " once", "c": " caller", "y": " syncraise", "w": " slow"}.get(sid[0], "")


def sub_ops(rng, con, n, live):
    """n subscribe / unsubscribe ops on existing entities; sids r* raise, s* do not; `live` collects what was ever subscribed"""
    ops = []
    for _ in range(n):
        k = rng.random()
        if live and k < 0.3:
            target = rng.choice(sorted(live))
            ops.append("unsub " + target)
            if rng.random() < 0.3:
                ops.append("unsub " + target)                      # unsubscribing twice
            continue
        if live and k < 0.45:
            target = rng.choice(sorted(live))                      # subscribing again: no extra effect
            ops.append("sub " + target + suffix(target.split()[-1]))
            continue
        sid = rng.choice(["s1", "s2", "s3", "r1", "r2", "o1", "c1", "both1", "both1", "y1", "w1", "w1"])
        kind = rng.choice(["at", "ac", "ac", "ac", "zone", "zone"] if con.zone_ids else ["at", "ac", "ac"])
        if kind == "at":
            target = "at %s" % sid
        elif kind == "ac":
            target = "ac %d %s %s" % (rng.choice(con.ac_ids), rng.choice(["general", "state"]), sid)
        else:
            target = "zone %d %s" % (rng.choice(con.zone_ids), sid)
        live.add(target)
        ops.append("sub " + target + suffix(sid))
        if rng.random() < 0.2:
            ops.append(ops[-1])                                    # twice in a row
    return ops


def make_script(rng, gen, n_frames, focus=None):
    inst = C.random_install(rng, gen, n_acs=rng.choice([1, 2, 2, 3, 4]), n_zones=rng.choice([1, 2, 3, 4, 6, 8] if gen == 4 else [0, 1, 2, 3, 4, 6, 8]))
    con = C.Console(rng, gen, inst)
    live = set()
    pre = []
    if rng.random() < 0.4:                                        # AirTouch-level subscribers may exist before init()
        for sid in rng.sample(["s1", "s2", "r1"], rng.randint(1, 2)):
            live.add("at %s" % sid)
            pre.append("sub at %s%s" % (sid, " raise" if sid.startswith("r") else ""))
    hs = pre + C.handshake(gen, inst)
    ops = list(hs) + sub_ops(rng, con, rng.randint(3, 10), live) + ["view"]
    for _ in range(n_frames):
        if rng.random() < 0.3:
            ops += sub_ops(rng, con, rng.randint(1, 3), live)
        k = rng.random()
        if k < 0.25 and con.last:
            f = con.last                                           # byte-identical repeat
        elif focus == "errors" and k < 0.6:
            ac = rng.choice(con.ac_ids)
            if rng.random() < 0.5:
                f = con.ac_frame([dict(con.ac[ac], err=rng.choice([0, 5, 5, 7]))])
            else:
                f = con.emit(C.err_info(gen, ac, rng.choice([b"E5", b"E7", b""])))
        else:
            f = con.random_frame()
        ops += [f, "view"]
        if rng.random() < 0.08:
            # a public control call between two reports: it changes nothing the object model exposes (that comes from the
            # console's reports only), so nobody is notified and the next report is compared with the last REPORTED state
            ops += [c10.random_call(rng, inst), "view"]
    return ops, len(hs)


# ------------------------------------------------------------------------------------------------ the oracle
def timer_raw(gen, payload):
    """-> [(ac, raw on/off bytes)]"""
    if gen == 4:
        return [(ac, bytes(payload[8 * ac:8 * ac + 4])) for ac in range(len(payload) // 8)]
    normal, each, count = payload[2] << 8 | payload[3], payload[4] << 8 | payload[5], payload[6] << 8 | payload[7]
    body = payload[8 + normal:]
    return [(body[each * k], bytes(body[each * k + 1:each * k + 5])) for k in range(count)]


def raw_records(gen, kind, payload):
    """-> [(entity number, the documented bytes of its record)] of a status frame (padding after the documented bytes dropped)"""
    if gen == 4:
        size = 8 if kind == "2D" else 6
        return [(payload[k] & 0x3F, bytes(payload[k:k + size])) for k in range(0, len(payload) - size + 1, size)]
    normal, each, count = payload[2] << 8 | payload[3], payload[4] << 8 | payload[5], payload[6] << 8 | payload[7]
    body = payload[8 + normal:]
    mask = 0x0F if kind == "C023" else 0x3F
    return [(body[each * k] & mask, bytes(body[each * k:each * k + 8])) for k in range(count) if each >= 8]


class Reports:
    """what the console last reported per entity (the record's bytes) -> how many changed reports a frame contains per entity"""

    def __init__(self, gen):
        self.gen = gen
        self.last = {}
        self.err_text = {}

    def moves(self, op):
        gen = self.gen
        k = apiref.kind_of(gen, op)
        out = {}
        if k is None:
            return out
        payload = apiref.msg_parts(op)[1]

        def put(key, slot, val):
            if self.last.get((key, slot)) != val:
                self.last[(key, slot)] = val
                out[key] = out.get(key, 0) + 1
                return True
            return False
        if k == "TIMER":
            for ac, raw in timer_raw(gen, payload):
                put(("ac", ac), "timer", raw)
        elif k == "FF30":
            put(("at",), "version", bytes(payload))
        elif k in ("2D", "C023"):
            for ac, raw in raw_records(gen, k, payload):
                if put(("ac", ac), "status", raw):
                    self.err_text.pop(ac, None)                    # an error text heard before a changed status may count as news again
        elif k in ("2B", "C021"):
            for z, raw in raw_records(gen, k, payload):
                put(("zone", z), "status", raw)
        elif k == "FF10" and len(payload) >= 4:
            ac, text = payload[2], bytes(payload[4:])
            if self.err_text.get(ac) != text:
                self.err_text[ac] = text
                out[("ac", ac)] = 1
        return out


def notify_key(target):
    """'ac 3 general s1' -> the NOTIFY line text; 'at s1'; 'zone 4 s2'"""
    w = target.split()
    if w[0] == "at":
        return "NOTIFY at %s %s" % (AT_ID, w[1])
    if w[0] == "ac":
        return "NOTIFY ac %s %s:%s" % (w[1], "both" if w[3].startswith("both") else w[2], w[3])
    return "NOTIFY zone %s %s" % (w[1], w[2])


def scope(target, view):
    w = target.split()
    if w[0] == "at":
        return [("at",)]
    if w[0] == "zone":
        return [("zone", int(w[1]))]
    ac = int(w[1])
    if w[2] == "state":
        return [("ac", ac)]
    zs = view["air_conditioners"].get(ac, {}).get("zones", {})
    return [("ac", ac)] + [("zone", z) for z in zs]


def one_shot(target):
    return target.split()[-1].startswith("o")


def judge(gen, ops, base):
    """-> (init ok, [(key, op index, what)], counts)"""
    twin = [o[:-6] if o.endswith(" raise") else (o[:-10] if o.endswith(" syncraise") else o) for o in ops]
    out = c10.run_real(gen, ops)
    any_raise = twin != ops
    out2 = c10.run_real(gen, twin) if any_raise else out
    init_ok = any(x == "RESULT init True" for o in out[:base] for x in o)
    bad, counts, seen = [], {}, set()

    def report(key, i, what):
        if key not in seen:
            seen.add(key)
            bad.append((key, i, what))

    def cnt(k, n=1):
        counts[k] = counts.get(k, 0) + n
    rep = Reports(gen)
    active = {}                   # target -> raising
    prev_text, prev_view = None, None
    for i, (op, o) in enumerate(zip(ops, out)):
        w = op.split()
        if w[0] == "sub":
            raising = w[-1] in ("raise", "syncraise")
            target = " ".join(w[1:-1] if w[-1] in ("raise", "once", "caller", "syncraise", "slow") else w[1:])
            active.setdefault(target, raising)
            continue
        if w[0] == "unsub":
            active.pop(" ".join(w[1:]), None)
            continue
        if op == "view":
            prev_text = next((x for x in o if x.startswith("VIEW ")), None)
            prev_view = None
            if any_raise and i >= base and o != out2[i]:
                report("raising-subscriber-disturbs-view", i, "with raising subscribers the object model differs from the run where the same subscribers do not raise")
            continue
        if w[0] == "call" and i >= base and prev_text is not None and i + 1 < len(ops) and ops[i + 1] == "view":
            nxt = next((x for x in out[i + 1] if x.startswith("VIEW ")), None)
            notes = [x for x in o if x.startswith("NOTIFY")]
            if nxt is not None and nxt != prev_text and not notes:
                report("silent-change-by-call", i, "the public call `%s` changed an exposed attribute and no subscriber was invoked" % op)
            elif notes and nxt == prev_text:
                report("spurious:call", i, "the public call `%s` invoked subscribers %s although nothing exposed changed" % (op, notes))
            cnt("calls-judged")
            continue
        if w[0] != "msg":
            continue
        moves = rep.moves(op)
        if i < base or prev_text is None:
            continue
        nxt = next((x for x in out[i + 1] if x.startswith("VIEW ")), None) if i + 1 < len(ops) and ops[i + 1] == "view" else None
        if nxt is None:
            continue
        notes = [x for x in o if x.startswith("NOTIFY")]
        for x in o:
            if x.startswith(("UNDECODABLE", "EXC")):
                report("frame-raises", i, x)
            if x.startswith("SUBSCRIBER-EXC"):
                cnt("subscriber-exception-reaches-socket")
        if any_raise:
            notes2 = [x for x in out2[i] if x.startswith("NOTIFY")]
            if sorted(notes) != sorted(notes2):
                report("raising-subscriber-silences-others", i, "NOTIFY lines with raising subscribers %s, with the same subscribers not raising %s" % (sorted(notes), sorted(notes2)))
        if prev_text == nxt:
            changed = set()
            after = None
        else:
            if prev_view is None:
                prev_view = apiref.scope_views(apiref.parse_view(prev_text))
            after_p = apiref.parse_view(nxt)
            after = apiref.scope_views(after_p)
            changed = {k for k in set(prev_view) | set(after) if prev_view.get(k) != after.get(k)}
        if active:
            struct = apiref.parse_view(nxt)
        expected_lines = {}
        groups = {}
        spent = []
        for target, raising in active.items():
            tw = target.split()
            if tw[0] == "ac" and tw[3].startswith("both") and tw[2] == "state" and "ac %s general %s" % (tw[1], tw[3]) in active:
                continue          # the same callable is also a general subscriber of this AC: judged once, with the wider scope
            line = notify_key(target)
            n = notes.count(line)
            expected_lines[line] = target
            sc = scope(target, struct)
            ch = [k for k in sc if k in changed]
            mv = sum(moves.get(k, 0) for k in sc)
            kind = target.split()[0] + ("-" + target.split()[2] if target.startswith("ac") else "")
            cnt("%s:%s" % (kind, "changed" if ch else ("repeat" if mv == 0 else "hidden-change")))
            if ch and n == 0:
                report("missed:" + kind, i, "subscriber %r not invoked although %s changed" % (target, ch))
            elif not ch and mv == 0 and n > 0:
                report("spurious:" + kind, i, "subscriber %r invoked %d times although nothing in its scope was reported differently" % (target, n))
            elif one_shot(target) and n > 1:
                report("one-shot-again:" + kind, i, "subscriber %r unsubscribed itself inside its first callback and was invoked %d times by this frame" % (target, n))
            elif n > max(mv, len(ch)):
                report("too-often:" + kind, i, "subscriber %r invoked %d times for %d changed reports" % (target, n, max(mv, len(ch))))
            if not ch and mv and n:
                cnt("%s:notified-on-hidden-change" % kind)
            if raising and n:
                cnt("raising-subscriber-invoked")
            if one_shot(target):
                if n:
                    spent.append(target)                 # heard its one call: gone from now on
            else:
                groups.setdefault(tuple(target.split()[:-1]), []).append((target, n))
        for g, members in groups.items():
            if len({n for _, n in members}) > 1:
                report("unequal:" + g[0], i, "subscribers of the same entity heard different numbers of calls: %s" % members)
        for x in notes:
            if x not in expected_lines:
                report("not-subscribed", i, "%r although no such subscriber is subscribed to that entity (active: %s)" % (x, sorted(active)))
        for target in spent:
            active.pop(target, None)
            cnt("one-shot-spent")
        cnt("frames-judged")
        prev_text = nxt
    return init_ok, bad, counts


def _work(job):
    gen, label, ops, base = job
    ok, bad, counts = judge(gen, ops, base)
    return label, ok, bad, counts


def pool_map(jobs):
    n = min(16, os.cpu_count() or 1, max(1, len(jobs)))
    if n <= 1:
        return [_work(j) for j in jobs]
    with multiprocessing.get_context("fork").Pool(n) as p:
        return p.map(_work, jobs, chunksize=1)


# ------------------------------------------------------------------------------------------------ shrinking
def still_fails(gen, ops, base, key):
    try:
        ok, bad, _ = judge(gen, ops, base)
    except Exception:  # noqa: BLE001
        return None
    return next((b for b in bad if b[0] == key), None) if ok else None


def shrink(gen, ops, base, idx, key, budget=150):
    """drop units after the handshake (a frame with its view; a sub / unsub op) while the same failure remains"""
    ops = ops[:idx + 2]
    best = still_fails(gen, ops, base, key)
    if best is None:
        return ops, None
    head, rest = ops[:base], ops[base:]
    units, j = [], 0
    while j < len(rest):
        if rest[j].startswith("msg") and j + 1 < len(rest) and rest[j + 1] == "view":
            units.append(rest[j:j + 2])
            j += 2
        else:
            units.append(rest[j:j + 1])
            j += 1
    n = len(units)
    while n >= 1 and budget > 0:
        s = 0
        while s < len(units) and budget > 0:
            trial = units[:s] + units[s + n:]
            cand = head + [o for u in trial for o in u]
            budget -= 1
            b = still_fails(gen, cand, base, key) if trial else None
            if b is not None:
                units, ops, best = trial, cand, b
            else:
                s += n
        n //= 2
    return ops, best


# ------------------------------------------------------------------------------------------------ entry points
RULE = (
    "both generations; random installations (1..4 ACs, up to 8 zones); AirTouch-level subscribers possibly before init(), then subscribe / "
    "subscribe-again / unsubscribe / unsubscribe-twice ops for AirTouch, AC general, AC state-only and zone subscribers (sids r* raise, o* are one-shot: they unsubscribe themselves inside their first callback and must never be heard again, c* send a request of their own from inside the callback, both* are ONE callable registered on both AC channels, withdrawn from one or the other) "
    "interleaved with AC / zone / timer / error-text / version frames: changed, partially changed, unchanged records, byte-identical repeats "
    "(25%), unknown entity numbers, the same entity twice in a frame; plus scripts concentrating on error code / error text sequences. `view` "
    "before and after every frame: required = an attribute in the subscriber's scope changed between the views; forbidden = every entity in "
    "scope absent from the frame or reported byte for byte as last time; NOTIFY lines for non-subscribed / wrong identifiers; equal "
    "counts for siblings; every script with raising subscribers is run again without raising and all VIEW / NOTIFY lines must agree. "
    "distinct = distinct (generation, script, frame index)")


def build_jobs(ctx, thorough):
    jobs = []
    n, length = (700, 120) if thorough else (90, 60)
    for gen in (4, 5):
        for k in range(n):
            focus = "errors" if k % 5 == 4 else None
            ops, base = make_script(ctx.rng, gen, length, focus)
            jobs.append((gen, "%s-%d" % (focus or "random", k), ops, base))
    return jobs


def second_session(ctx):
    """an application that restarts the client (shutdown(), then init() on the same object) keeps the subscription it made on the
    AirTouch object itself: a console version report of the new session that changes what the object shows is heard"""
    import apigen4
    import apigen5
    for gen in (4, 5):
        inst = C.installs(gen)[1]
        hs = C.handshake(gen, inst)
        ver = (lambda u, v: apigen4.m_version(u, v)) if gen == 4 else (lambda u, v: apigen5.console_version(1 if u else 0, v))
        for resub in (False, True):
            ops = list(hs) + ["sub at s1", "view", ver(True, ["2.0"]), "view", "shutdown"] + (["sub at s1"] if resub else []) + list(hs) + ["view", ver(False, ["3.1", "3.2"]), "view"]
            out = c10.run_real(gen, ops)
            ctx.case(("second-session", gen, resub))
            first = len(hs) + 2
            second = len(ops) - 2
            if not any("RESULT init True" in x for o in out[:len(hs)] for x in o):
                ctx.tie_broken("C12:console-script", "the scripted console no longer initialises the AirTouch %d object" % gen)
                continue
            for idx, which in ((first, "first"), (second, "second")):
                before = next((x for x in out[idx - 1] if x.startswith("VIEW ")), None)
                after = next((x for x in out[idx + 1] if x.startswith("VIEW ")), None)
                heard = [x for x in out[idx] if x.startswith("NOTIFY at")]
                ctx.count("second-session:%s:%s" % (which, "heard" if heard else "silent"))
                if before != after and not heard:
                    ctx.violation("C12:%d:second-session" % gen, "AirTouch %d: the subscriber of the AirTouch object (subscribed in the first session%s) was not invoked by the %s "
                                  "session's console version report `%s` although update_available / console_versions changed" % (
                                      gen, ", subscribed again after shutdown()" if resub else ", never unsubscribed", which, ops[idx]), kind="history",
                                  scenario=ops, implementation_output=out[idx], spec_verdict="NOTIFY at")
                    break


def run(ctx, deep=False):
    thorough = deep or ctx.tier == "thorough"
    ctx.coverage["rule"] = RULE
    ctx.assumptions += [
        "a frame that reports an entity differently in a field that no public attribute shows (AC timer / turbo flag, update sign 1 vs 2, a disabled timer's left-over digits, an error text while no error is reported) is neither a repeat nor a change of an exposed attribute: being invoked or not are both accepted",
        "an AC's general subscriber may be invoked once per changed entity in its scope (several calls for one frame that changes several zones)",
        "frames during the handshake are not judged (the quantifier is over status frames after initialisation); AirTouch-level subscribers may be placed before init()",
        "subscriber identity is the harness's (kind, sid) key; a raising subscriber's NOTIFY line is recorded before it raises",
    ]
    jobs = build_jobs(ctx, thorough)
    worst = {}
    for (gen, label, ops, base), (lab, ok, bad, counts) in zip(jobs, pool_map(jobs)):
        ctx.count("%d:script:%s" % (gen, label.split("-")[0]))
        for k, v in counts.items():
            ctx.count("%d:%s" % (gen, k), v)
        for i in range(base, len(ops)):
            if ops[i].startswith("msg"):
                ctx.case((gen, label, i))
        for o in ops[base:]:
            ctx.count("%d:op:%s" % (gen, apiref.kind_of(gen, o) or o.split()[0]))
        if not ok:
            ctx.tie_broken("C12:console-script", "the scripted console no longer initialises the AirTouch %d object (script %s): %s" % (gen, label, ops[:base]))
            continue
        for key, idx, what in bad:
            k = "C12:%d:%s" % (gen, key)
            if k not in worst or idx < worst[k][1]:
                worst[k] = (ops, idx, base, what, label, key)
    for k in sorted(worst):
        ops, idx, base, what, label, key = worst[k]
        gen = int(k.split(":")[1])
        small, b = shrink(gen, ops, base, idx, key)
        if b is not None:
            what = b[2]
        ctx.violation(k, "AirTouch %d %s: %s (script %s; after the handshake of %d ops: %s)" % (gen, key, what, label, base, " ; ".join(small[base:][-10:])),
                      kind="history", gen=gen, ops=small, base=base, failure=key)
    if jobs:
        gen, label, ops, base = jobs[0]
        ctx.sample({"script": label, "gen": gen, "ops": ops[base:base + 10]})
    two_objects(ctx, thorough)
    second_session(ctx)
    c10.tie(ctx, "C12", 400 if thorough else 40, first=5)


def two_objects(ctx, thorough):
    """who is notified by one client object does not depend on another client object of the same generation in the same process (two
    consoles in one home): each script's NOTIFY / VIEW lines, run alternately with another installation's script, equal those of a run alone"""
    for gen in (4, 5):
        for k in range(10 if thorough else 3):
            oa, _ = make_script(ctx.rng, gen, 25)
            ob, _ = make_script(ctx.rng, gen, 25)
            solo = (c10.run_real(gen, oa), c10.run_real(gen, ob))
            both = c10.run_interleaved(gen, oa, ob)
            ctx.case(("two-objects", gen, k))
            for name, ops, s1, s2 in (("first", oa, solo[0], both[0]), ("second", ob, solo[1], both[1])):
                d = next((i for i, (x, y) in enumerate(zip(s1, s2)) if x != y), None)
                ctx.count("%d:two-objects:%s" % (gen, "same" if d is None else "differs"))
                if d is not None:
                    ctx.violation("C12:%d:two-objects" % gen, "AirTouch %d: two client objects in one process, scripts run alternately: the %s object's output for op %d `%s` is %s, "
                                  "run alone it is %s" % (gen, name, d, ops[d][:80], [x for x in s2[d] if not x.startswith("VIEW")][:6], [x for x in s1[d] if not x.startswith("VIEW")][:6]),
                                  kind="history", level="two-objects", gen=gen, ops_a=oa, ops_b=ob, implementation_output=str(s2[d])[:600], spec_verdict=str(s1[d])[:600])
                    return


def search(ctx):
    if ctx.tier != "thorough" and not ctx.violations:
        jobs = build_jobs(ctx, True)
        for (gen, label, ops, base), (lab, ok, bad, counts) in zip(jobs, pool_map(jobs)):
            for key, idx, what in bad[:1]:
                small, b = shrink(gen, ops, base, idx, key)
                ctx.violation("C12:%d:%s" % (gen, key), "AirTouch %d %s: %s" % (gen, key, what), kind="history", gen=gen, ops=small, base=base, failure=key)
                return


def replay(ctx, data):
    if data.get("level") == "two-objects":
        return c10.replay(ctx, data)
    gen, ops, base, key = data["gen"], data["ops"], data.get("base", 0), data.get("failure")
    ok, bad, _ = judge(gen, ops, base)
    out = c10.run_real(gen, ops)
    for o, r in list(zip(ops, out))[base:]:
        print("  ", o, "->", [x for x in r if not x.startswith("VIEW")])
    hit = [b for b in bad if key is None or b[0] == key]
    for k, idx, what in hit:
        print("op %d: %s: %s" % (idx, k, what))
    if not hit:
        print("every subscriber is invoked exactly when the property demands on this script")
    return 1 if hit else 0
