"""Structured payload generators for the AC Ability codecs (extended message 0xFF11) of both generations.

AirTouch 4 record: ac_number, following_length (22 = no group bitmap, 24 = little-endian 16-bit group bitmap
follows), 16-byte NUL-padded name, start_group, group_count, mode bits, fan bits, min/max set-point
[, bitmap lo, bitmap hi].
AirTouch 5 record: ac_number, following_length (24), 16-byte name, start_zone, zone_count,
mode bits, fan bits, min/max cool, min/max heat.
Both decoders advance by 2 + following_length: `_rec_following` also produces records whose following length is
honoured by the data (longer records with bytes appended after the known ones, following lengths below the
documented minimum, a last record whose following length runs past the end).
"""

INTERESTING = [0x00, 0x01, 0x02, 0x0F, 0x10, 0x15, 0x16, 0x17, 0x18, 0x19, 0x1A, 0x1F, 0x20, 0x3F, 0x40, 0x55,
               0x7F, 0x80, 0xAA, 0xC0, 0xF0, 0xFE, 0xFF]

UTF8_SAMPLES = ["é", "ü", "ß", "Ω", "中", "日本", "€", "☃", "😀", "𝄞", "ñ", "߿", "ࠀ", "￿",
                "\U00010000", "\U0010ffff", "\x7f", "\x01"]

INVALID_UTF8 = [b"\xff", b"\xfe", b"\x80", b"\xbf", b"\xc0\x80", b"\xc1\xbf", b"\xe0\x80\x80", b"\xe0\x9f\xbf",
                b"\xed\xa0\x80", b"\xed\xbf\xbf", b"\xf0\x80\x80\x80", b"\xf0\x8f\xbf\xbf", b"\xf4\x90\x80\x80",
                b"\xf5\x80\x80\x80", b"\xf8\x88\x80\x80\x80", b"\xc3", b"\xe2\x82", b"\xf0\x9f\x98", b"\xc3\x28",
                b"\xe2\x28\xa1", b"\xf0\x28\x8c\xbc"]

ASCII = "ABCDEFGHIJKLMNOPQRSTUVWXYZabcdefghijklmnopqrstuvwxyz0123456789 -_/.'"


def _byte(rng):
    r = rng.random()
    if r < 0.35:
        return rng.choice(INTERESTING)
    return rng.randrange(256)


def _name16(rng, clean=False):
    """16 raw bytes of the name field; `clean` = only names that decode"""
    r = rng.random()
    if clean:
        r *= 0.62
        if 0.50 <= r:
            head = "".join(rng.choice(ASCII) for _ in range(rng.randint(0, 8))).encode()
            return (head + b"\0" + bytes(rng.randrange(256) for _ in range(16)))[:16]
        if 0.30 <= r:
            s = ""
            while True:
                c = rng.choice(UTF8_SAMPLES) if rng.random() < 0.6 else rng.choice(ASCII)
                if len((s + c).encode("utf-8")) > 16 or (len(s) and rng.random() < 0.15):
                    break
                s += c
            raw = s.encode("utf-8")
            return raw + bytes(16 - len(raw))
    if r < 0.30:        # plain ASCII, NUL padded
        n = rng.choice([0, 1, 2, 5, 8, 12, 15, 16, 16])
        raw = "".join(rng.choice(ASCII) for _ in range(n)).encode()
    elif r < 0.50:      # multi-byte UTF-8 (cut at 16 bytes: may split a character)
        s = ""
        for _ in range(rng.randint(1, 8)):
            s += rng.choice(UTF8_SAMPLES) if rng.random() < 0.6 else rng.choice(ASCII)
        raw = s.encode("utf-8")
    elif r < 0.62:      # embedded NULs, possibly garbage (even invalid UTF-8) after the first NUL
        head = "".join(rng.choice(ASCII) for _ in range(rng.randint(0, 8))).encode()
        tail = bytes(rng.randrange(256) for _ in range(rng.randint(0, 10)))
        raw = head + b"\0" + tail
    elif r < 0.80:      # invalid UTF-8 before any NUL
        head = "".join(rng.choice(ASCII) for _ in range(rng.randint(0, 10))).encode()
        raw = head + rng.choice(INVALID_UTF8) + "".join(rng.choice(ASCII) for _ in range(rng.randint(0, 4))).encode()
    elif r < 0.86:      # exactly fills the field, ends in a multi-byte character
        tail = rng.choice(UTF8_SAMPLES).encode("utf-8")
        raw = b"A" * (16 - len(tail)) + tail
    elif r < 0.92:      # high bytes only
        raw = bytes(rng.randrange(0x80, 0x100) for _ in range(rng.randint(1, 16)))
    else:               # anything
        raw = bytes(rng.randrange(256) for _ in range(16))
    raw = raw[:16]
    if rng.random() < 0.1:
        return raw + bytes(rng.randrange(256) for _ in range(16 - len(raw)))   # no NUL padding
    return raw + bytes(16 - len(raw))


def _declared(rng, data, rec):
    """header.message_length for `data` (mostly exact) and possibly a cut / extended buffer"""
    ln = len(data)
    r = rng.random()
    if r < 0.62:
        return data, ln
    if r < 0.70:        # truncated buffer, declared length unchanged
        cut = rng.choice([1, 1, 2, 3, rec - 1, rec, rec + 1, rng.randint(1, max(1, ln))])
        return data[:max(0, ln - cut)], ln
    if r < 0.76:        # trailing bytes not covered by the declared length
        return data + bytes(rng.randrange(256) for _ in range(rng.choice([1, 2, 3, rec, 30]))), ln
    if r < 0.80:        # declared length does not tile (buffer as long as announced or longer)
        return data, max(0, ln + rng.choice([-3, -2, -1, 1, 2, 3, 5, 21, 23, 25, 27]))
    if r < 0.84:        # declared length ends inside a record, the buffer goes on: the loop overshoots
        return data + bytes(rng.randrange(256) for _ in range(rng.choice([2, 24, 26, 40]))), \
            max(0, ln + rng.choice([-25, -23, -3, -2, -1, 1, 2, 3, 5, 21, 23, 25]))
    if r < 0.90:        # declares whole records more / fewer than supplied
        return data, max(0, ln + rng.choice([-2 * rec, -rec, rec, 2 * rec, rec + 2, rec - 2]))
    if r < 0.95:
        return data, rng.choice([0, 1, 2, 22, 23, 24, 25, 26, 27, 46, 48, 50, 52, 72, 74, 76, 78, 96, 104, 208, 255])
    return data, rng.randrange(0, 300)


def _request(rng):
    r = rng.random()
    if r < 0.3:
        return b"", [rng.choice([0, 0, 1])]
    if r < 0.6:
        return bytes([_byte(rng)]), [rng.choice([1, 1, 1, 0])]
    n = rng.choice([2, 3, 24, 26])
    return bytes(rng.randrange(256) for _ in range(n)), [rng.choice([0, 1])]


# ---------------------------------------------------------------------------------------------- AirTouch 4
def _rec4(rng, clean=False):
    r = rng.random()
    if r < 0.40:
        following = 24
    elif r < 0.75:
        following = 22
    elif r < 0.90:
        following = rng.choice([0, 1, 2, 20, 21, 23, 25, 26, 28, 48, 0x80, 0xFF])
    else:
        following = rng.randrange(256)
    fixed = bytes([_byte(rng), following]) + _name16(rng, clean) + bytes(_byte(rng) for _ in range(6))
    with_bitmap = following == 24
    if rng.random() < 0.04:
        with_bitmap = not with_bitmap       # grammar violation: bitmap missing / unannounced bitmap present
    if with_bitmap:
        q = rng.random()
        if q < 0.25:
            bm = 1 << rng.randrange(16)
        elif q < 0.35:
            bm = rng.choice([0, 0xFFFF, 0x00FF, 0xFF00, 0x8001, 0x0404, 0x0C05, 0x5555, 0xAAAA])
        else:
            bm = rng.randrange(65536)
        fixed += bytes([bm & 0xFF, bm >> 8])
    return fixed


def _rec_following(rng, clean, known, documented):
    """one record `ac, L, L bytes` whose data HONOURS the announced following length L: `known` = number of
    documented following bytes without optional parts (22 / 24), `documented` = the documented values of L"""
    r = rng.random()
    if r < 0.30:
        following = rng.choice(documented)
    elif r < 0.75:      # a future console appends fields: longer than any documented record
        following = max(documented) + rng.choice([1, 1, 2, 2, 3, 4, 8, 20, 22, 24, 26, 46, 50, 100, 229, 231])
    elif r < 0.85:      # between / just around the documented values
        following = rng.choice([known - 2, known - 1, known, known + 1, known + 2, known + 3])
    else:               # shorter than the known fields (body still of the announced length)
        following = rng.choice([0, 1, 2, 16, 17, 20, 21, known - 1])
    following = min(255, max(0, following))
    body = _name16(rng, clean) + bytes(_byte(rng) for _ in range(255))
    return bytes([_byte(rng), following]) + body[:following]


def _gen_following(rng, known, documented, legacy_rec):
    """several records with honoured following lengths; mostly the exact announced length, sometimes cut so that the
    last record runs past the end, sometimes mixed with records of the legacy generator"""
    count = rng.choice([1, 1, 1, 2, 2, 3, 4])
    clean = rng.random() < 0.8
    recs = [_rec_following(rng, clean, known, documented) if rng.random() < 0.8 else legacy_rec(rng, clean)
            for _ in range(count)]
    data = b"".join(recs)
    r = rng.random()
    if r < 0.60:
        return data, [len(data)]
    if r < 0.72:        # the last record's following length runs past the announced length (and the buffer)
        cut = rng.choice([1, 1, 2, 3, rng.randint(1, max(1, len(recs[-1]) - 1))])
        return data[:max(0, len(data) - cut)], [max(0, len(data) - cut)]
    if r < 0.80:        # ... past the announced length only (the buffer has the bytes)
        return data, [max(0, len(data) - rng.choice([1, 2, 3, 24, 26]))]
    if r < 0.88:        # announced length reached, buffer shorter (skipped bytes are never looked at)
        return data[:max(0, len(data) - rng.choice([1, 2, 3, 20]))], [len(data)]
    data, ln = _declared(rng, data, known + 2)
    return data, [ln]


def gen_at4(rng):
    if rng.random() < 0.06:
        return _request(rng)
    if rng.random() < 0.35:
        return _gen_following(rng, 22, [22, 24], _rec4)
    count = rng.choice([0, 1, 1, 1, 2, 2, 3, 4])
    clean = rng.random() < 0.7
    data = b"".join(_rec4(rng, clean) for _ in range(count))
    data, ln = _declared(rng, data, rng.choice([24, 26]))
    return data, [ln]


# ---------------------------------------------------------------------------------------------- AirTouch 5
def _rec5(rng, clean=False):
    r = rng.random()
    if r < 0.6:
        following = 24
    elif r < 0.85:
        following = rng.choice([0, 1, 22, 23, 25, 26, 28, 0x80, 0xFF])
    else:
        following = rng.randrange(256)
    return bytes([_byte(rng), following]) + _name16(rng, clean) + bytes(_byte(rng) for _ in range(8))


def gen_at5(rng):
    if rng.random() < 0.06:
        return _request(rng)
    if rng.random() < 0.35:
        return _gen_following(rng, 24, [24], _rec5)
    count = rng.choice([0, 1, 1, 1, 2, 2, 3, 4, 5, 6, 7, 8])
    clean = rng.random() < 0.7
    data = b"".join(_rec5(rng, clean) for _ in range(count))
    if rng.random() < 0.03 and data:
        # a record shorter / longer than 26 bytes as if the following length were honoured
        data = data[:-rng.choice([1, 2])] if rng.random() < 0.5 else data + bytes([_byte(rng), _byte(rng)])
    data, ln = _declared(rng, data, 26)
    return data, [ln]


GENERATORS = {(4, "FF11"): gen_at4, (5, "FF11"): gen_at5}
