"""Structured payload generators for the text-carrying extended messages (part 3):
AirTouch 4 FF10 (AC error info), FF12 (group names), FF30 (console version);
AirTouch 5 FF10 (AC error info), FF13 (zone names), FF30 (console version).

Each generator returns (payload_bytes, [message_length]).  Payloads follow the grammar of the message
with random names (ASCII, 2/3/4-byte UTF-8 characters, embedded NULs, invalid UTF-8 sometimes), 0..16
entries, duplicate keys sometimes, and some malformed variants: wrong length bytes, truncated buffers,
header lengths that do not match, trailing bytes.
"""

ASCII = "ABCDEFGHIJKLMNOPQRSTUVWXYZabcdefghijklmnopqrstuvwxyz0123456789 .-_/#"
TWO = "éñüΩß\u0080߿"
THREE = "€日本ࠀ￿퟿"
FOUR = "\U0001F600\U0001D11E\U00010000\U0010FFFF"
INVALID = [
    b"\x80", b"\xbf", b"\xc3", b"\xe2\x82", b"\xf0\x9f\x98",      # lone continuation / truncated
    b"\xc0\x80", b"\xc1\xbf", b"\xe0\x80\x80", b"\xf0\x80\x80\x80",  # overlong
    b"\xed\xa0\x80", b"\xed\xbf\xbf",                              # surrogates
    b"\xf4\x90\x80\x80", b"\xf5\x80\x80\x80", b"\xff", b"\xfe",     # above U+10FFFF / never valid
    b"\xc3\x28", b"\xe2\x28\xa1", b"\xf0\x28\x8c\xbc",              # bad continuation
]


def _text(rng, nchars):
    pools = [ASCII, ASCII, ASCII, TWO, THREE, FOUR]
    return "".join(rng.choice(rng.choice(pools)) for _ in range(nchars))


def rand_name(rng, maxbytes=None, seps=b"", clean=False):
    """bytes of a random 'name': mostly valid UTF-8 (always valid, whole characters, when `clean`)"""
    r = rng.random()
    if clean:
        r *= 0.83
    if r < 0.08:
        b = b""
    elif r < 0.45:
        b = "".join(rng.choice(ASCII) for _ in range(rng.randint(1, 12))).encode()
    elif r < 0.75:
        b = _text(rng, rng.randint(1, 8)).encode("utf-8")
    elif r < 0.83:                      # embedded NULs
        parts = [_text(rng, rng.randint(0, 4)).encode("utf-8") for _ in range(rng.randint(2, 3))]
        b = b"\0".join(parts)
    elif r < 0.95:                      # invalid UTF-8 somewhere
        b = _text(rng, rng.randint(0, 3)).encode("utf-8") + rng.choice(INVALID) + _text(rng, rng.randint(0, 3)).encode("utf-8")
    else:
        b = bytes(rng.randrange(256) for _ in range(rng.randint(1, 10)))
    if seps and rng.random() < 0.3:
        pos = rng.randint(0, len(b))
        b = b[:pos] + bytes([rng.choice(seps)]) + b[pos:]
    if maxbytes is not None and len(b) > maxbytes:
        b = b[:maxbytes]                # may cut a multi-byte character: intended
        if clean:
            b = b.decode("utf-8", "ignore").encode("utf-8")   # drop the cut character
    return b


def _len_header(rng, payload):
    """header.message_length: mostly the payload length"""
    n = len(payload)
    r = rng.random()
    if r < 0.85:
        return n
    if r < 0.90:
        return max(0, n - rng.randint(1, 3))
    if r < 0.95:
        return n + rng.randint(1, 3)
    return rng.choice([0, 1, 2, n + 9])


def _damage(rng, payload):
    """sometimes truncate or extend the buffer after the header length was chosen"""
    r = rng.random()
    if r < 0.06 and payload:
        return payload[:-rng.randint(1, min(4, len(payload)))]
    if r < 0.12:
        return payload + bytes(rng.randrange(256) for _ in range(rng.randint(1, 5)))
    return payload


# --------------------------------------------------------------------------- FF10 (both generations)
def gen_err_info(rng):
    ac = rng.choice([0, 1, 2, 3, 7, 255, rng.randrange(256)])
    r = rng.random()
    if r < 0.1:                          # request
        p = bytes([ac])
        return _damage(rng, p), [rng.choice([1, 1, 1, 0, 2])]
    if r < 0.15:
        return b"", [rng.choice([0, 1, 2])]
    clean = rng.random() < 0.6
    name = rand_name(rng, clean=clean) if rng.random() < 0.8 else rand_name(rng, clean=clean) * rng.randint(2, 12)
    name = name[:255]
    if clean:
        name = name.decode("utf-8", "ignore").encode("utf-8")
    ln = len(name)
    q = 1.0 if clean else rng.random()
    if q < 0.08:
        ln = max(0, ln - rng.randint(1, 3))      # length byte too small (may cut a character)
    elif q < 0.16:
        ln = min(255, ln + rng.randint(1, 4))    # length byte too big: slice is short
    elif q < 0.20:
        ln = 0
    elif q < 0.23:
        name = b""                                # non-zero length, nothing follows -> "" (not None)
        ln = rng.randint(1, 255)
    p = bytes([ac, ln]) + name
    hp = _len_header(rng, p)
    return _damage(rng, p), [hp]


# --------------------------------------------------------------------------- AT4 FF12 group names
def gen_group_names(rng):
    r = rng.random()
    if r < 0.05:
        return _damage(rng, b""), [0]
    if r < 0.12:
        return _damage(rng, bytes([rng.randrange(256)])), [1]
    clean = rng.random() < 0.6
    count = rng.choice([0, 1, 1, 2, 3, 4, 5, 8, 12, 16])
    keys = []
    p = bytearray()
    for i in range(count):
        q = rng.random()
        if keys and q < 0.15:
            k = rng.choice(keys)                  # duplicate key
        elif q < 0.8:
            k = i
        else:
            k = rng.randrange(256)
        keys.append(k)
        name = rand_name(rng, 8, clean=clean)
        field = bytearray(name)
        if len(field) < 8:
            pad = 8 - len(field)
            if clean or rng.random() < 0.8:
                field += b"\0" * pad
            else:                                 # garbage after the terminator
                field += b"\0" + bytes(rng.randrange(256) for _ in range(pad - 1))
        p.append(k)
        p += field[:8]
    p = bytes(p)
    hp = len(p)
    q = rng.random() + (0.1 if clean else 0.0)
    if q < 0.05:
        hp += rng.choice([1, 2, 8])
    elif q < 0.10:
        hp = max(0, hp - rng.choice([1, 8, 9]))
    elif q < 0.15:
        hp += 9                                   # one more record announced than supplied
    return _damage(rng, p), [hp]


# --------------------------------------------------------------------------- FF30 console version
def _gen_console_ver(sep, other):
    def gen(rng):
        r = rng.random()
        if r < 0.06:
            return _damage(rng, b""), [rng.choice([0, 0, 1, 2])]
        clean = rng.random() < 0.6
        upd = rng.choice([0, 1, 1, 2, 0x80, 255])
        nver = rng.choice([0, 1, 1, 2, 2, 2, 3, 5])
        vers = []
        for _ in range(nver):
            if rng.random() < 0.6:
                v = ("%d.%d.%d" % (rng.randint(0, 9), rng.randint(0, 20), rng.randint(0, 99))).encode()
            else:
                v = rand_name(rng, 20, seps=bytes([sep, other]), clean=clean)
            vers.append(v)
        text = bytes([sep]).join(vers)
        if rng.random() < 0.1:
            text = bytes([sep]) + text
        if rng.random() < 0.1:
            text = text + bytes([sep])
        text = text[:255]
        if clean:
            text = text.decode("utf-8", "ignore").encode("utf-8")
        ln = len(text)
        q = 1.0 if clean else rng.random()
        if q < 0.08:
            ln = max(0, ln - rng.randint(1, 3))
        elif q < 0.16:
            ln = min(255, ln + rng.randint(1, 4))
        p = bytes([upd, ln]) + text
        if rng.random() < 0.04:
            p = p[:1]
        hp = _len_header(rng, p)
        return _damage(rng, p), [hp]
    return gen


# --------------------------------------------------------------------------- AT5 FF13 zone names
def gen_zone_names(rng):
    r = rng.random()
    if r < 0.05:
        return _damage(rng, b""), [0]
    if r < 0.12:
        return _damage(rng, bytes([rng.randrange(256)])), [1]
    clean = rng.random() < 0.6
    count = rng.choice([0, 1, 1, 2, 3, 4, 5, 8, 12, 16])
    keys = []
    p = bytearray()
    for i in range(count):
        q = rng.random()
        if keys and q < 0.15:
            k = rng.choice(keys)
        elif q < 0.8:
            k = i
        else:
            k = rng.randrange(256)
        keys.append(k)
        name = rand_name(rng, clean=clean)
        if rng.random() < 0.03:
            name = (name * 40)[:255]
            if clean:
                name = name.decode("utf-8", "ignore").encode("utf-8")
        ln = len(name)
        q = 1.0 if clean else rng.random()
        if q < 0.04:
            ln = max(0, ln - rng.randint(1, 2))
        elif q < 0.08:
            ln = min(255, ln + rng.randint(1, 3))
        p.append(k)
        p.append(ln)
        p += name
    p = bytes(p)
    hp = len(p)
    q = rng.random() + (0.12 if clean else 0.0)
    if q < 0.06:
        hp = max(0, hp - rng.randint(1, 3))
    elif q < 0.12:
        hp += rng.randint(1, 3)
    elif q < 0.15:
        hp = max(0, hp - count)                   # one byte per zone short (the length the pre-repair size() announced)
    return _damage(rng, p), [hp]


GENERATORS = {
    (4, "FF10"): gen_err_info,
    (4, "FF12"): gen_group_names,
    (4, "FF30"): _gen_console_ver(0x7C, 0x2C),
    (5, "FF10"): gen_err_info,
    (5, "FF13"): gen_zone_names,
    (5, "FF30"): _gen_console_ver(0x2C, 0x7C),
}
