"""Check-runner core: regenerate Gen, build Lean targets, audit axioms, talk to driver/oracle,
collect violations / broken ties, write evidence, decide the exit status.

Exit codes: 0 property held on everything explored; 1 violation (a `VIOLATION property=.. replay=..`
line is printed); 2 infrastructure failure or timeout (never reported as a violation).
"""
import fcntl
import hashlib
import json
import os
import random
import re
import subprocess
import sys
import time

VERIF = os.path.dirname(os.path.dirname(os.path.abspath(__file__)))
REPO = os.environ.get("VERIF_REPO", "/repo")
LEAN_DIR = os.path.join(VERIF, "lean")
BIN_DIR = os.path.join(LEAN_DIR, ".lake", "build", "bin")
EVIDENCE_DIR = os.path.join(VERIF, "evidence")
REPLAY_DIR = os.path.join(VERIF, "replays")
KNOWN_FINDINGS = os.path.join(VERIF, "known_findings.txt")
PY = "/venv/bin/python"

ALLOWED_AXIOMS = {"propext", "Classical.choice", "Quot.sound"}
FORBIDDEN = re.compile(
    r"\bsorry\b|\badmit\b|^\s*axiom\s|native_decide|bv_decide|implemented_by|\bunsafe\s|maxHeartbeats\s+0\b",
    re.M,
)

TRUSTED_BASE = [
    "Lean 4.33.0 kernel (property theorems may depend only on propext, Classical.choice, Quot.sound; audited each run)",
    "translate/*.py (regenerates lean/PyAirtouch/Gen from /repo; generated definitions are compared with the Python objects on their whole finite domains)",
    "harness/*.py correspondence check: canonical forms, generators, virtual-clock loop and in-memory transport stand in for CPython asyncio timing and the OS network stack",
    "hand-written lean/PyAirtouch/Model/* (modelled, tied to /repo by the correspondence run of this check, not verified)",
    "lean/PyAirtouch/Spec/* (my reading of the vendor protocol documents and of the property statements)",
    "CPython 3.12 semantics of int, struct, bytes.decode, float rounding as observed by the differential runs",
]


class Infra(Exception):
    """Infrastructure failure: exit 2, never a violation."""


def strip_lean_comments(text):
    out = []
    i = 0
    depth = 0
    n = len(text)
    while i < n:
        if text.startswith("/-", i):
            depth += 1
            i += 2
        elif depth and text.startswith("-/", i):
            depth -= 1
            i += 2
        elif depth:
            i += 1
        elif text.startswith("--", i):
            j = text.find("\n", i)
            i = n if j < 0 else j
        else:
            out.append(text[i])
            i += 1
    return "".join(out)


class Ctx:
    def __init__(self, prop, tier, seed):
        self.prop = prop
        self.tier = tier
        self.seed = seed
        self.rng = random.Random(seed * 1000003 + int(prop[1:]))
        self.t0 = time.time()
        self.violations = []      # concrete property failures on the implementation
        self.broken = []          # broken ties: theorem no longer checks / correspondence differs / translator refuses
        self.notes = []
        self.coverage = {}
        self.samples = []
        self.assumptions = []
        self.evaluations = 0
        self.distinct = set()
        self.dist = {}
        self.traces_validated = 0
        self.obligations = 0
        self.discharged = 0
        self.axioms = {}
        self.theorems = []
        self.checker_cmd = ""
        self.driver_ok = False
        self.oracle_ok = False
        self.props_ok = False
        self.exhaustive = None

    # ------------------------------------------------------------------ logging helpers
    def log(self, *a):
        print("[%s %6.1fs]" % (self.prop, time.time() - self.t0), *a, flush=True)

    def count(self, key, n=1):
        self.dist[key] = self.dist.get(key, 0) + n

    def case(self, canon, nontrivial=True):
        """Count one evaluated case; `canon` identifies it for the distinct count."""
        self.evaluations += 1
        if nontrivial:
            if len(self.distinct) < 2_000_000:
                self.distinct.add(hash(canon))

    def sample(self, s):
        if len(self.samples) < 12:
            self.samples.append(s)

    def violation(self, key, what, **data):
        """The property fails on the implementation for a concrete input."""
        self.violations.append({"key": key, "what": what, **data})

    def tie_broken(self, name, detail, **data):
        self.broken.append({"name": name, "detail": detail, **data})

    # ------------------------------------------------------------------ lean phases
    def regen(self, generators=None):
        cmd = [PY, os.path.join(VERIF, "translate", "extract.py")] + (generators or [])
        env = dict(os.environ, VERIF_REPO=REPO)
        p = subprocess.run(cmd, capture_output=True, text=True, env=env, timeout=300)
        if p.returncode == 3:
            errs = [l for l in p.stdout.splitlines() if l.startswith("TRANSLATE-ERROR")]
            for e in errs:
                self.tie_broken("translator", e)
            return False
        if p.returncode != 0:
            raise Infra("translator crashed: " + p.stdout[-2000:] + p.stderr[-2000:])
        return True

    def lake(self, targets, timeout=3000):
        p = subprocess.run(["lake", "build"] + targets, cwd=LEAN_DIR, capture_output=True, text=True, timeout=timeout)
        return p.returncode == 0, (p.stdout + p.stderr)

    def build(self, prop_modules, need_driver=True, need_oracle=True):
        """Builds oracle (Spec only), driver (Gen+Model) and the property's Props modules separately,
        so that a proof broken by a source change does not take the executables down with it."""
        if need_oracle:
            ok, log = self.lake(["oracle"])
            self.oracle_ok = ok
            if not ok:
                raise Infra("oracle (Spec only, independent of /repo) does not build:\n" + log[-3000:])
        if need_driver:
            ok, log = self.lake(["driver"])
            self.driver_ok = ok
            if not ok:
                self.tie_broken("model-build", "the model no longer builds against the regenerated Gen", lean_error=_errors(log))
        ok, log = self.lake(prop_modules)
        self.props_ok = ok
        if not ok:
            self.tie_broken("theorem", "a property theorem or one of its lemmas no longer checks", lean_error=_errors(log))
        return ok

    def audit(self, prop_modules):
        """Forbidden-token grep over all Lean sources + #print axioms for every property theorem."""
        bad = []
        for root, _, files in os.walk(LEAN_DIR):
            if ".lake" in root:
                continue
            for f in files:
                if f.endswith(".lean"):
                    path = os.path.join(root, f)
                    txt = strip_lean_comments(open(path, encoding="utf-8").read())
                    m = FORBIDDEN.search(txt)
                    if m:
                        bad.append("%s: %r" % (os.path.relpath(path, LEAN_DIR), m.group(0)))
        if bad:
            raise Infra("forbidden token in Lean sources: " + "; ".join(bad))
        theorems = []
        examples = 0
        lines = []
        for mod in prop_modules:
            path = os.path.join(LEAN_DIR, mod.replace(".", "/") + ".lean")
            txt = strip_lean_comments(open(path, encoding="utf-8").read())
            examples += len(re.findall(r"^\s*example\b", txt, re.M))
            lines.append("import " + mod)
            # fully qualified theorem names: follow namespace / section nesting
            stack = []          # (kind, name)
            for ln in txt.splitlines():
                m = re.match(r"^\s*(namespace|section)\b\s*(\S*)", ln)
                if m:
                    stack.append((m.group(1), m.group(2)))
                    continue
                m = re.match(r"^\s*end\b\s*(\S*)\s*$", ln)
                if m and stack:
                    stack.pop()
                    continue
                m = re.match(r"^\s*(?:protected\s+)?theorem\s+([^\s:({\[]+)", ln)
                if m:
                    name = m.group(1)
                    if name.startswith("_root_."):
                        theorems.append(name[len("_root_."):])
                    else:
                        theorems.append(".".join([n for k, n in stack if k == "namespace" and n] + [name]))
        self.theorems = theorems
        self.obligations = len(theorems) + examples
        if not self.props_ok:
            self.discharged = 0
            return
        body = "\n".join(lines) + "\n" + "\n".join("#print axioms %s" % t for t in theorems) + "\n"
        apath = os.path.join(LEAN_DIR, ".lake", "audit_%s.lean" % self.prop)
        with open(apath, "w") as f:
            f.write(body)
        self.checker_cmd = "cd lean && lake build %s && lake env lean .lake/audit_%s.lean  # #print axioms" % (
            " ".join(prop_modules), self.prop)
        p = subprocess.run(["lake", "env", "lean", apath], cwd=LEAN_DIR, capture_output=True, text=True, timeout=1200)
        out = p.stdout + p.stderr
        if p.returncode != 0:
            raise Infra("axiom audit failed to run: " + out[-2000:])
        found = {}
        for m in re.finditer(r"'(\S+)' depends on axioms: \[([^\]]*)\]", out):
            found[m.group(1)] = [a.strip() for a in m.group(2).replace("\n", " ").split(",") if a.strip()]
        for m in re.finditer(r"'(\S+)' does not depend on any axioms", out):
            found[m.group(1)] = []
        self.axioms = found
        missing = [t for t in theorems if t not in found]
        if missing:
            raise Infra("axiom audit: no report for " + ", ".join(missing))
        for t, ax in found.items():
            extra = [a for a in ax if a not in ALLOWED_AXIOMS]
            if extra:
                raise Infra("theorem %s depends on non-standard axioms %s" % (t, extra))
        self.discharged = self.obligations

    def leanchecker(self, prop_modules):
        p = subprocess.run(["lake", "env", "leanchecker"] + prop_modules, cwd=LEAN_DIR, capture_output=True, text=True, timeout=3000)
        if p.returncode != 0:
            raise Infra("leanchecker rejected %s: %s" % (prop_modules, (p.stdout + p.stderr)[-2000:]))
        self.notes.append("leanchecker re-checked " + " ".join(prop_modules))

    # ------------------------------------------------------------------ executables
    def run_exe(self, name, lines, timeout=1800):
        """Send `lines` to the driver/oracle, get exactly one answer line per request."""
        exe = os.path.join(BIN_DIR, name)
        if not os.path.exists(exe):
            raise Infra("%s executable missing" % name)
        data = "\n".join(lines) + "\n"
        p = subprocess.run([exe], input=data, capture_output=True, text=True, timeout=timeout)
        if p.returncode != 0:
            raise Infra("%s crashed: %s" % (name, p.stderr[-2000:]))
        out = p.stdout.split("\n")
        if out and out[-1] == "":
            out.pop()
        if len(out) != len(lines):
            raise Infra("%s answered %d lines for %d requests" % (name, len(out), len(lines)))
        return out

    def driver(self, lines):
        return self.run_exe("driver", lines)

    def oracle(self, lines):
        return self.run_exe("oracle", lines)


def _errors(log):
    errs = [l for l in log.splitlines() if "error" in l.lower()]
    return "\n".join(errs[:40]) if errs else log[-3000:]


# ---------------------------------------------------------------------- known findings
def load_known():
    findings, fixed = [], []
    if os.path.exists(KNOWN_FINDINGS):
        for line in open(KNOWN_FINDINGS, encoding="utf-8"):
            line = line.strip()
            if line.startswith("finding:"):
                m = re.match(r"finding:\s+property=(\S+)\s+key=(\S+)\s+(.*)", line)
                if m:
                    findings.append({"property": m.group(1), "key": m.group(2), "text": m.group(3)})
            elif line.startswith("fixed:"):
                fixed.append(line)
    return findings, fixed


# ---------------------------------------------------------------------- finishing
def write_replay(ctx, payload):
    os.makedirs(REPLAY_DIR, exist_ok=True)
    blob = json.dumps(payload, sort_keys=True, default=str)
    h = hashlib.sha256(blob.encode()).hexdigest()[:12]
    path = os.path.join(REPLAY_DIR, "%s-%s.json" % (ctx.prop, h))
    payload = dict(payload, replay_cmd="./check %s --replay %s" % (ctx.prop, path))
    with open(path, "w") as f:
        json.dump(payload, f, indent=1, sort_keys=True, default=str)
    return path


def write_evidence(ctx, level, n_viol, extra_cov=None):
    os.makedirs(EVIDENCE_DIR, exist_ok=True)
    cov = {
        "obligations": max(ctx.obligations, 1),
        "discharged": ctx.discharged,
        "checker_cmd": ctx.checker_cmd or "cd lean && lake build",
        "trusted_base": TRUSTED_BASE,
        "theorems": ctx.theorems,
        "axioms": ctx.axioms,
        "evaluations": ctx.evaluations,
        "distinct_nontrivial": len(ctx.distinct),
        "rule": ctx.coverage.get("rule", ""),
        "samples": ctx.samples or ["(no correspondence cases were generated in this run)"],
        "traces_validated_against_impl": ctx.traces_validated,
        "distribution": ctx.dist,
        "broken_ties": [b["name"] + ": " + b["detail"] for b in ctx.broken],
        "notes": ctx.notes,
    }
    for k, v in ctx.coverage.items():
        cov.setdefault(k, v)
    if ctx.exhaustive is not None:
        cov["exhaustive"] = bool(ctx.exhaustive)
    if extra_cov:
        cov.update(extra_cov)
    ev = {
        "property_id": ctx.prop,
        "tier": ctx.tier,
        "seed": ctx.seed,
        "level": level,
        "coverage": cov,
        "assumptions": ctx.assumptions,
        "wall_s": round(time.time() - ctx.t0, 2),
        "violations": n_viol,
    }
    with open(os.path.join(EVIDENCE_DIR, ctx.prop + ".json"), "w") as f:
        json.dump(ev, f, indent=1, default=str)


class BuildLock:
    def __enter__(self):
        self.f = open(os.path.join(VERIF, ".build.lock"), "w")
        fcntl.flock(self.f, fcntl.LOCK_EX)
        return self

    def __exit__(self, *a):
        fcntl.flock(self.f, fcntl.LOCK_UN)
        self.f.close()
