#!/bin/bash
# soak.sh <first seed> <last seed> [checks...] : runs the quick checks with several seeds on the current tree, prints non-zero exits
cd "$(dirname "$0")/.."
A=$1; B=$2; shift 2
CHECKS=${@:-$(python3 -c "import json;print(' '.join(c['property_id'] for c in json.load(open('MANIFEST.json'))['checks']))")}
for s in $(seq $A $B); do for c in $CHECKS; do
  VERIF_SEED=$s ./check $c > /tmp/soak_$c_$s.log 2>&1; rc=$?
  if [ $rc -ne 0 ]; then echo "seed=$s check=$c exit=$rc"; grep -E "VIOLATION|INFRA" -A1 /tmp/soak_$c_$s.log | cut -c1-300 | head -4; fi
done; done; echo "soak done $A..$B"
