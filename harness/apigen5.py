"""Generators of op scripts for the AirTouch 5 API differential (`api_try5.py`, check C09..C14 instances).

Frames are built as raw payload bytes (not through the library's encoders) so that every field value, stride,
padding and malformed shape can be produced.  Every generator takes a `random.Random` and returns a list of op
lines of the language documented in `apiharness.py` (plus the optional `to_address` word of `msg`).
"""

MODES = [0, 1, 2, 3, 4, 8, 9]                 # xC023 AcMode values
FANS = [0, 1, 2, 3, 4, 5, 6, 9, 10, 11, 12, 13, 14]
POWERS = [0, 1, 2, 3, 5]
AC_POWER_CONTROLS = ["TOGGLE", "TURN_OFF", "TURN_ON", "SET_TO_AWAY", "SET_TO_SLEEP"]
AC_MODES = ["AUTO", "HEAT", "DRY", "FAN", "COOL"]
AC_FANS = ["AUTO", "QUIET", "LOW", "MEDIUM", "HIGH", "POWERFUL", "TURBO", "INTELLIGENT_AUTO"]
ZONE_POWERS = ["OFF", "ON", "TURBO"]
TIMERS = ["OFF_TIMER", "ON_TIMER"]
NAMES = ["Living", "Bed 1", "Café", "", "Küche", "Zone", "日本", "Study-Room-Long", "a", "Kids"]
TEMPS = ["-5", "-0.04", "0", "0.05", "9.95", "10", "15.95", "16", "16.05", "16.15", "17", "19.95", "20", "20.5",
         "21.05", "21.15", "21.25", "21.35", "21.45", "21.55", "21.65", "21.75", "21.85", "21.95", "22", "22.3",
         "25.5", "27.95", "28", "28.05", "29.95", "30", "30.04", "30.05", "31", "35.5", "40", "99", "123.45",
         "-12.35", "-12.25", "1.15", "2.5", "2.25", "2.35", "18.1", "18.12", "18.18"]


def hx(bs):
    return bytes(bs).hex() if bs else "-"


def msg(mid, payload, to=None):
    return "msg %02x %s" % (mid, hx(payload)) + ("" if to is None else " %02x" % to)


def ext(sub, body, to=None, declared=None):
    return msg(0x1F, [0xFF, sub] + list(body), to)


def cs(sub, nr, rl, rc, body, to=None):
    return msg(0xC0, [sub, 0, nr >> 8, nr & 255, rl >> 8, rl & 255, rc >> 8, rc & 255] + list(body), to)


# ------------------------------------------------------------------------------------------------ extended
def console_version(update, versions):
    t = ",".join(versions).encode()
    return ext(0x30, [1 if update else 0, len(t)] + list(t))


def console_version_request(to=None):
    return ext(0x30, [], to)


def zone_names(d):
    body = []
    for z, n in d:
        b = n.encode()
        body += [z, len(b)] + list(b)
    return ext(0x13, body)


def zone_names_request(to=None, zone=None):
    return ext(0x13, [] if zone is None else [zone], to)


def ability_rec(ac, name, start, count, modes, fans, mincool, maxcool, minheat, maxheat, following=24):
    nb = name.encode()[:16]
    nb = nb + b"\0" * (16 - len(nb))
    return [ac, following] + list(nb) + [start, count, modes, fans, mincool, maxcool, minheat, maxheat]


def ac_ability(recs):
    body = []
    for r in recs:
        body += r
    return ext(0x11, body)


def err_info(ac, text):
    if text is None:
        return ext(0x10, [ac, 0])
    b = text.encode()
    return ext(0x10, [ac, len(b)] + list(b))


# ------------------------------------------------------------------------------------------------ control / status
def ac_status_rec(ac, power, mode, fan, turbo, bypass, spill, timer, sp_raw, temp_raw, err, junk=0):
    return [(power << 4) | ac, (mode << 4) | fan, sp_raw,
            (turbo << 3) | (bypass << 2) | (spill << 1) | timer | (junk & 0xF0),
            (temp_raw >> 8) & 255, temp_raw & 255, err >> 8, err & 255]


def ac_status(recs, stride=10, to=None):
    body = []
    for r in recs:
        body += r + [0] * (stride - 8)
    return cs(0x23, 0, stride, len(recs), body, to)


def ac_status_request(to=None):
    return cs(0x23, 0, 0, 0, [], to)


def zone_status_rec(zone, power, ctrl, damper, sp_raw, sensor, temp_raw, spill, batt):
    return [(power << 6) | zone, (ctrl << 7) | damper, sp_raw, sensor << 7,
            (temp_raw >> 8) & 255, temp_raw & 255, (spill << 1) | batt, 0]


def zone_status(recs, stride=8, to=None):
    body = []
    for r in recs:
        body += r + [0] * (stride - 8)
    return cs(0x21, 0, stride, len(recs), body, to)


def zone_status_request(to=None):
    return cs(0x21, 0, 0, 0, [], to)


def timer_rec(ac, on, off):
    def st(t):
        dis, h, m = t
        return [(dis << 7) | h, m]
    return [ac] + st(on) + st(off) + [0, 0, 0, 0]


def timer_status(recs, sub=0x33, stride=9, to=None):
    body = []
    for r in recs:
        body += r + [0] * (stride - 9)
    return cs(sub, 0, stride, len(recs), body, to)


def timer_status_request(to=None):
    return cs(0x33, 0, 0, 0, [], to)


# ------------------------------------------------------------------------------------------------ installations
class Inst:
    """zones: list of (number, name); acs: list of ability tuples"""

    def __init__(self, rng, n_acs=None, n_zones=None, odd=False):
        self.rng = rng
        n_acs = rng.randint(1, 4) if n_acs is None else n_acs
        n_zones = rng.choice([0, 0, 1, 2, 3, 4, 5, 6, 8, 11, 16]) if n_zones is None else n_zones
        self.zones = [(z, rng.choice(NAMES)) for z in range(n_zones)]
        cuts = sorted(rng.randint(0, n_zones) for _ in range(n_acs - 1))
        bounds = [0] + cuts + [n_zones]
        self.acs = []
        numbers = list(range(n_acs))
        if odd and rng.random() < 0.5:
            numbers = rng.sample(range(16), n_acs)
        for i in range(n_acs):
            start, count = bounds[i], bounds[i + 1] - bounds[i]
            if odd:
                k = rng.random()
                if k < 0.2 and n_zones:
                    start = rng.randint(0, n_zones - 1)          # overlapping ranges
                    count = rng.randint(0, n_zones - start)
                elif k < 0.3:
                    count += rng.randint(1, 2)                     # beyond the named zones: KeyError
            lo_c, lo_h = rng.randint(14, 20), rng.randint(14, 20)
            hi_c, hi_h = rng.randint(26, 32), rng.randint(26, 32)
            if odd and rng.random() < 0.15:
                hi_c, lo_c = lo_c, hi_c                            # inverted limits
            modes = rng.choice([0x1F, 0x1F, rng.randint(0, 31)])
            fans = rng.choice([0xFF, 0xFF, rng.randint(0, 255)])
            self.acs.append((numbers[i], rng.choice(NAMES[:3] + ["Main", "Upstairs AC unit"]), start, count, modes, fans,
                             lo_c, hi_c, lo_h, hi_h))
        if odd and rng.random() < 0.3 and self.zones:
            # zone numbers that are not 0..n-1 / a duplicate entry
            self.zones = [(z + rng.choice([0, 0, 1]), n) for z, n in self.zones]
        if odd and rng.random() < 0.2 and len(self.acs) > 1:
            self.acs.append(self.acs[0])                           # duplicate AC number in one message

    def ac_numbers(self):
        return [a[0] for a in self.acs]

    def zone_numbers(self):
        return [z for z, _ in self.zones]

    def m_zone_names(self):
        if not self.zones:
            return zone_names_request()
        return zone_names(self.zones)

    def m_ability(self):
        return ac_ability([ability_rec(*a) for a in self.acs])

    def r_ac_status(self, ac=None, err=None):
        rng = self.rng
        ac = rng.choice(self.ac_numbers() + [rng.randint(0, 15)]) if ac is None else ac
        if err is None:
            err = rng.choice([0, 0, 0, 5, 65535, rng.randint(0, 65535)])
        return ac_status_rec(ac, rng.choice(POWERS), rng.choice(MODES), rng.choice(FANS), rng.randint(0, 1),
                             rng.randint(0, 1), rng.randint(0, 1), rng.randint(0, 1), rng.choice([0, 100, 115, 120, 255, rng.randint(0, 255)]),
                             rng.choice([0, 500, 715, 2000, 2047, rng.randint(0, 2047)]) | rng.choice([0, 0, 0xF800]), err,
                             rng.choice([0, 0, 0xF0]))

    def m_ac_status(self, all_acs=True):
        rng = self.rng
        if all_acs:
            recs = [self.r_ac_status(a) for a in self.ac_numbers()]
        else:
            recs = [self.r_ac_status() for _ in range(rng.randint(0, 3))]
        return ac_status(recs, stride=rng.choice([10, 10, 8, 12])) if recs else ac_status([], stride=10)

    def r_zone_status(self, zone=None):
        rng = self.rng
        zs = self.zone_numbers()
        zone = rng.choice(zs + [rng.randint(0, 63)]) if zone is None else zone
        sensor = rng.randint(0, 1)
        return zone_status_rec(zone, rng.choice([0, 1, 3]), rng.randint(0, 1), rng.choice([0, 50, 100, 127, rng.randint(0, 127)]),
                               rng.choice([255, 100, 120, rng.randint(0, 255)]), sensor,
                               rng.choice([715, 500, 2001, 2047, rng.randint(0, 2047)]), rng.randint(0, 1), rng.randint(0, 1))

    def m_zone_status(self, all_zones=True):
        rng = self.rng
        if all_zones:
            recs = [self.r_zone_status(z) for z in self.zone_numbers()]
        else:
            recs = [self.r_zone_status() for _ in range(rng.randint(0, 3))]
        if not recs:
            return zone_status_request()
        return zone_status(recs, stride=rng.choice([8, 8, 10]))

    def r_timer(self, ac=None):
        rng = self.rng
        ac = rng.choice(self.ac_numbers() + [rng.randint(0, 255)]) if ac is None else ac

        def st():
            dis = rng.randint(0, 1)
            if dis:
                return (1, rng.randint(0, 31), rng.randint(0, 63))
            return (0, rng.choice([0, 7, 23, rng.randint(0, 23)]), rng.choice([0, 30, 59, rng.randint(0, 59)]))
        return timer_rec(ac, st(), st())

    def m_timer_status(self, all_acs=True, sub=0x33):
        rng = self.rng
        if all_acs:
            recs = [self.r_timer(a) for a in self.ac_numbers()]
        else:
            recs = [self.r_timer() for _ in range(rng.randint(1, 3))]
        return timer_status(recs, sub=sub, stride=rng.choice([9, 9, 11]))


def noise(rng, inst):
    """one frame / event that must not disturb a handshake: unsolicited, duplicate, unknown, undecodable"""
    k = rng.randint(0, 17)
    if k == 0:
        return msg(rng.choice([0x2B, 0x45, 0x00, 0xFF]), [rng.randint(0, 255) for _ in range(rng.randint(0, 6))])
    if k == 1:
        return ext(rng.choice([0x12, 0x31, 0x00]), [rng.randint(0, 255) for _ in range(rng.randint(0, 5))])
    if k == 2:
        n = rng.randint(0, 3)
        return cs(rng.choice([0x24, 0x00, 0x7F]), 0, 2, n, [rng.randint(0, 255) for _ in range(2 * n)])
    if k == 3:
        return msg(0x1F, [0xFF][:rng.randint(0, 1)])                       # struct.error
    if k == 4:
        return msg(0xC0, [0x21, 0, 0, 0][:rng.randint(0, 4)])             # struct.error
    if k == 5:
        return cs(0x23, 0, 4, 1, [0, 0, 0, 0])                             # DecodeError (stride below 8)
    if k == 6:
        return ext(0x30, [0, 3, 0xFF, 0xFE, 0xFD])                         # UnicodeDecodeError
    if k == 7:
        return ext(0x49, [0, rng.randint(0, 1), 1, 30])                    # quick timer message (ignored)
    if k == 8:
        return cs(0x22, 0, 4, 1, [0x20, 0x00, 0x00, 0xFF])                 # AC control echo (ignored)
    if k == 9:
        return cs(0x20, 0, 4, 1, [0, 0x80, 50, 0])                         # zone control echo (ignored)
    if k == 10:
        return "adv %d" % rng.choice([0, 1, 3, 8])
    if k == 11:
        return console_version_request(rng.choice([None, 0x90, 0xB0]))
    if k == 12:
        return ext(0x11, [] if rng.random() < 0.5 else [rng.randint(0, 3)], rng.choice([None, 0x90]))   # ability request echo
    if k == 13:
        return err_info(rng.choice(inst.ac_numbers() + [9]), rng.choice([None, "E5", "Fehler ä"]))
    if k == 14:
        return ext(0x10, [rng.randint(0, 3)])                              # error info request echo
    if k == 15:
        return cs(0x23, 0, 10, 1, inst.r_ac_status()[:8] + [0, 0] + [7])   # left-over byte: DecodeError
    if k == 16:
        return "view"
    if rng.random() < 0.5:
        return zone_status_request(to=rng.choice([0x80, 0x90]))           # echo of our own request: not addressed to us
    return zone_names_request(to=0x90)                                     # echo of our own request: not addressed to us


def handshake_msgs(rng, inst):
    """the console's answers, in handshake order"""
    return [console_version(rng.randint(0, 1), rng.choice([["1.2.3"], ["1.0", "2.0"], [""], ["é1"]])),
            inst.m_zone_names(), inst.m_ability(), inst.m_ac_status(),
            inst.m_timer_status(sub=rng.choice([0x33, 0x33, 0x32])),   # a timer *control* frame is accepted as the answer too
            inst.m_zone_status()]


def unsolicited(rng, inst):
    k = rng.randint(0, 5)
    return [inst.m_ac_status(rng.random() < 0.5), inst.m_zone_status(rng.random() < 0.5), inst.m_timer_status(rng.random() < 0.5),
            inst.m_ability(), inst.m_zone_names(), console_version(rng.randint(0, 1), ["9.9"])][k]


def handshake(rng, inst, noisy=0.0, stop_at=None, dup=0.0, unsol=0.0):
    """init + conn + answers; `stop_at` = number of answers delivered before the console falls silent"""
    ops = ["init"]
    if rng.random() < 0.2:
        ops.append("conn 0")
    ops.append("conn 1")
    answers = handshake_msgs(rng, inst)
    for i, a in enumerate(answers):
        if stop_at is not None and i >= stop_at:
            break
        while rng.random() < noisy:
            ops.append(noise(rng, inst))
        while rng.random() < unsol:
            # answers to later steps / earlier steps arriving out of turn
            ops.append(rng.choice(answers[:i] + answers[i + 1:]))
        ops.append(a)
        if rng.random() < dup:
            ops.append(a)
    return ops


def calls(rng, inst, n):
    ops = []
    acs = inst.ac_numbers() + [rng.randint(0, 15)]
    zs = inst.zone_numbers() + [rng.randint(0, 20)]
    for _ in range(n):
        k = rng.randint(0, 11)
        ac, z = rng.choice(acs), rng.choice(zs)
        if k == 0:
            ops.append("call ac %d set_power %s" % (ac, rng.choice(AC_POWER_CONTROLS)))
        elif k == 1:
            ops.append("call ac %d set_mode %s %d" % (ac, rng.choice(AC_MODES), rng.randint(0, 1)))
        elif k == 2:
            ops.append("call ac %d set_fan_speed %s" % (ac, rng.choice(AC_FANS)))
        elif k == 3:
            ops.append("call ac %d set_target_temperature %s" % (ac, rng.choice(TEMPS)))
        elif k == 4:
            ops.append("call ac %d set_quick_timer %s time %d %d" % (ac, rng.choice(TIMERS), rng.choice([0, 7, 23, 24, 12]),
                                                                   rng.choice([0, 30, 59, 60, 15])))
        elif k == 5:
            ops.append("call ac %d set_quick_timer %s duration %d" % (ac, rng.choice(TIMERS), rng.choice([0, 59, 60, 3600, 5400, 86399, 86400, 90061])))
        elif k == 6:
            ops.append("call ac %d clear_quick_timer %s" % (ac, rng.choice(TIMERS)))
        elif k == 7:
            ops.append("call zone %d set_power %s" % (z, rng.choice(ZONE_POWERS)))
        elif k == 8:
            ops.append("call zone %d set_target_temperature %s" % (z, rng.choice(TEMPS)))
        elif k == 9:
            ops.append("call zone %d set_damper_percentage %d" % (z, rng.choice([-1, 0, 1, 50, 99, 100, 101, 255, -100])))
        elif k == 10:
            ops.append("call at check_for_updates")
        else:
            ops.append("view")
    return ops


def subs(rng, inst, n):
    ops = []
    acs = inst.ac_numbers() + [rng.randint(0, 15)]
    zs = inst.zone_numbers() + [rng.randint(0, 20)]
    sids = ["s1", "s2", "s3"]
    for _ in range(n):
        verb = rng.choice(["sub", "sub", "unsub"])
        r = " raise" if (verb == "sub" and rng.random() < 0.3) else ""
        k = rng.randint(0, 3)
        if k == 0:
            ops.append("%s at %s%s" % (verb, rng.choice(sids), r))
        elif k == 1:
            ops.append("%s ac %d %s %s%s" % (verb, rng.choice(acs), rng.choice(["general", "state"]), rng.choice(sids), r))
        else:
            ops.append("%s zone %d %s%s" % (verb, rng.choice(zs), rng.choice(sids), r))
    return ops


def status_history(rng, inst, n):
    ops = []
    last = None
    for _ in range(n):
        k = rng.randint(0, 13)
        if k == 0 and last:
            ops.append(last)                      # exact repeat: must be silent
            continue
        if k <= 2:
            m = inst.m_ac_status(rng.random() < 0.6)
        elif k <= 4:
            m = inst.m_zone_status(rng.random() < 0.6)
        elif k == 5:
            m = inst.m_timer_status(rng.random() < 0.6)
        elif k == 6:
            m = inst.m_timer_status(rng.random() < 0.6, sub=0x32)     # a timer *control* message is a timer status to the API
        elif k == 7:
            m = err_info(rng.choice(inst.ac_numbers() + [11]), rng.choice([None, "E5", "Err: é", "x" * 40]))
        elif k == 8:
            m = console_version(rng.randint(0, 1), rng.choice([["1.2.3"], ["1.2.4"], ["1.0", "2.0"]]))
        elif k == 9:
            m = noise(rng, inst)
        elif k == 10:
            m = "view"
        elif k == 11:
            m = rng.choice(["conn 0", "conn 1", "conn 1"])
        elif k == 12:
            m = "adv %d" % rng.choice([1, 8, 40, 239, 240, 241, 2399, 2400, 2401, 2639, 2640, 2641, 3000])
        else:
            m = rng.choice(calls(rng, inst, 1) + subs(rng, inst, 1))
        ops.append(m)
        if m.startswith("msg"):
            last = m
    return ops


# ------------------------------------------------------------------------------------------------ scenarios
def sc_clean(rng):
    inst = Inst(rng)
    return handshake(rng, inst) + ["view"] + subs(rng, inst, 6) + status_history(rng, inst, 12) + calls(rng, inst, 8) + ["view"]


def sc_noisy_handshake(rng):
    inst = Inst(rng, odd=rng.random() < 0.3)
    ops = subs(rng, inst, 2) + handshake(rng, inst, noisy=0.5, dup=0.3, unsol=0.3)
    return ops + ["view"] + subs(rng, inst, 4) + status_history(rng, inst, 8) + ["view"]


def sc_silence(rng):
    inst = Inst(rng)
    stop = rng.randint(0, 5)
    ops = handshake(rng, inst, noisy=0.2, stop_at=stop)
    ops += ["adv %d" % rng.choice([39, 20, 1])] + ["view"] + calls(rng, inst, 2)
    ops += ["adv %d" % rng.choice([1, 19, 20, 40, 2700])] + ["adv 1", "view"]
    if rng.random() < 0.5:       # the console wakes up after the time-out
        ops += handshake_msgs(rng, inst)[stop:] + ["view", "adv 2400"]
    return ops


def sc_no_connection(rng):
    inst = Inst(rng)
    ops = ["view"] + calls(rng, inst, 3) + subs(rng, inst, 3) + [noise(rng, inst), "conn 1", "conn 0"]
    ops += ["init", "adv 39", "view", "adv 1", "view", "conn 1", "adv 50"] + handshake_msgs(rng, inst) + ["view"]
    return ops


def sc_zero_zones(rng):
    inst = Inst(rng, n_zones=0, odd=False)
    ops = ["init", "conn 1", console_version(0, ["1.1"])]
    k = rng.randint(0, 3)
    if k == 0:
        ops.append(zone_names_request(to=0x90))      # not to the client: ignored
        ops.append("adv 3")
    if k == 1:
        ops.append(zone_names_request(to=0x80))
    ops.append(zone_names_request(to=rng.choice([None, 0xB0]), zone=rng.choice([None, None, 3])))
    ops += [inst.m_ability(), inst.m_ac_status(), inst.m_timer_status()]
    if rng.random() < 0.4:
        ops.append(zone_status_request(to=rng.choice([0x80, 0x90])))    # ignored
    ops.append(zone_status_request(to=rng.choice([None, 0xB0])))
    ops += ["view"] + subs(rng, inst, 4) + status_history(rng, inst, 8) + calls(rng, inst, 6)
    return ops


def sc_reinit(rng):
    inst = Inst(rng, odd=rng.random() < 0.2)
    inst2 = Inst(rng, odd=rng.random() < 0.2)
    ops = handshake(rng, inst) + subs(rng, inst, 5) + status_history(rng, inst, 4)
    k = rng.randint(0, 2)
    if k == 0:
        ops += ["shutdown", "view"] + calls(rng, inst, 2) + ["conn 1", inst.m_ac_status(), err_info(0, "E")]
        ops += handshake(rng, inst2) + ["view"] + subs(rng, inst2, 3) + status_history(rng, inst2, 6)
    elif k == 1:
        # init() again without shutdown(): objects are replaced, old ones stay subscribed
        ops += handshake(rng, inst2, noisy=0.2) + ["view"] + subs(rng, inst2, 3) + status_history(rng, inst2, 6)
        ops += status_history(rng, inst, 4) + calls(rng, inst, 4) + ["view"]
    else:
        ops += ["init", "view", "adv 40", "conn 0", "conn 1"] + handshake_msgs(rng, inst2)[:rng.randint(0, 6)] + ["view", "shutdown", "adv 41"]
        ops += ["init", "init", "adv 10", "conn 1"] + handshake_msgs(rng, inst) + ["view"]
    return ops


def sc_odd_console(rng):
    """ability that refers to missing zones (KeyError), then a repaired one; duplicate numbers"""
    inst = Inst(rng, odd=True)
    good = Inst(rng)
    good.zones = inst.zones
    ops = ["init", "conn 1", console_version(0, ["1"]), inst.m_zone_names(), inst.m_ability(), "view"]
    ops += subs(rng, inst, 4) + [inst.m_ac_status(), inst.m_ability(), good.m_ability(), "view"]
    ops += [good.m_ac_status(), good.m_timer_status(), inst.m_zone_status(), "view"] + status_history(rng, inst, 8) + calls(rng, inst, 4)
    return ops


def sc_heartbeat(rng):
    inst = Inst(rng, n_acs=1, n_zones=rng.choice([0, 2]))
    ops = handshake(rng, inst)
    for _ in range(rng.randint(3, 10)):
        k = rng.randint(0, 7)
        if k <= 2:
            ops.append("adv %d" % rng.choice([2399, 2400, 2401, 240, 239, 241, 2640, 2639, 1, 5000, 100]))
        elif k == 3:
            ops.append(console_version(rng.randint(0, 1), ["1.2.3"]))
        elif k == 4:
            ops.append(console_version_request())
        elif k == 5:
            ops.append(rng.choice(["conn 0", "conn 1"]))
        elif k == 6:
            ops.append(inst.m_ac_status())
        else:
            ops.append(rng.choice(["view", "call at check_for_updates"]))
    if rng.random() < 0.3:
        ops += ["shutdown", "adv 3000", "view"]
    return ops


def sc_calls(rng):
    inst = Inst(rng, n_acs=rng.randint(1, 2))
    ops = handshake(rng, inst)
    for _ in range(4):
        ops += [inst.m_ac_status(), inst.m_zone_status(), inst.m_timer_status()] + calls(rng, inst, 10)
    return ops


def sc_subscribers(rng):
    inst = Inst(rng, n_zones=rng.choice([2, 3, 5]))
    ops = subs(rng, inst, 3) + handshake(rng, inst)
    for _ in range(5):
        ops += subs(rng, inst, 4) + status_history(rng, inst, 5)
    return ops


SCENARIOS = [sc_clean, sc_noisy_handshake, sc_silence, sc_no_connection, sc_zero_zones, sc_reinit, sc_odd_console,
             sc_heartbeat, sc_calls, sc_subscribers]


def gen_script(rng, i=None):
    f = SCENARIOS[(i if i is not None else rng.randrange(len(SCENARIOS))) % len(SCENARIOS)]
    return f.__name__, f(rng)
