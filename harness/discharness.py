"""Runs the real AirTouchDiscoverer.search() / factory.discover() on the virtual clock with a fake UDP endpoint."""
import asyncio
import warnings

import logging

import vloop
from vloop import TICK, ticks

_top = logging.getLogger("pyairtouch")
if not any(isinstance(h, logging.NullHandler) for h in _top.handlers):
    _top.addHandler(logging.NullHandler())
_top.propagate = False


class _FakeSocket:
    """stands in for socket.socket inside pyairtouch.comms.discovery (no real binding)"""
    def __init__(self, *a, **kw):
        self.bound = None

    def setsockopt(self, *a):
        pass

    def bind(self, addr):
        self.bound = addr

    def close(self):
        pass


_ERRS = [ConnectionRefusedError(111, "Connection refused"), OSError(113, "No route to host"), PermissionError(1, "Operation not permitted"),
         OSError(101, "Network is unreachable")]


def run_search(gen, arrivals, remote_host=None, errors=()):
    """arrivals: [(tick, datagram bytes)] relative to the start of the search.
    errors: ticks at which the socket reports an error to the protocol (`error_received`: an ICMP "port unreachable" for an earlier request, a
    refused send, ...) - what asyncio's datagram transport does on an OSError of sendto / recvfrom; the search is to carry on unaffected.
    -> dict(sent=[ticks], ret=tick, responses=[(id,name,serial,host)], dest=[addr], unhandled=n)"""
    import pyairtouch.comms.discovery as D
    mod = __import__("pyairtouch.at%d.comms.discovery" % gen, fromlist=["x"])
    loop = vloop.VLoop()
    net = vloop.Net(loop)
    loop.net = net
    real_socket = D.socket.socket
    D.socket.socket = _FakeSocket
    out = {}

    async def main():
        disc = D.AirTouchDiscoverer(mod.CONFIG, remote_host=remote_host)
        t0 = loop.time()
        task = loop.create_task(disc.search())
        await asyncio.sleep(0)

        def deliver(data):
            if net.udp:
                tr = net.udp[-1]
                if not tr.closed:
                    try:
                        tr.proto.datagram_received(data, ("192.168.1.5", mod.PORT))
                    except Exception as e:  # noqa: BLE001  (asyncio reports it through the loop's exception handler)
                        loop.call_exception_handler({"message": "datagram_received failed", "exception": e})
        def report(k):
            if net.udp:
                tr = net.udp[-1]
                if not tr.closed:
                    try:
                        tr.proto.error_received(_ERRS[k % len(_ERRS)])
                    except Exception as e:  # noqa: BLE001
                        loop.call_exception_handler({"message": "error_received failed", "exception": e})
        for k, t in enumerate(errors):
            loop.call_at(t0 + t * TICK, report, k + t)
        for t, data in arrivals:
            loop.call_at(t0 + t * TICK, deliver, data)
        res = await task
        out["ret"] = ticks(loop.time() - t0)
        out["responses"] = res
        tr = net.udp[-1]
        out["sent"] = [ticks(t - t0) for (t, d, a) in tr.sent]
        out["data"] = [d for (t, d, a) in tr.sent]
        out["dest"] = [a for (t, d, a) in tr.sent]
        out["closed"] = tr.closed
        await asyncio.sleep(40 * TICK)
        out["pending"] = len([t for t in asyncio.all_tasks(loop) if t is not asyncio.current_task() and not t.done()])

    asyncio.set_event_loop(loop)
    try:
        with warnings.catch_warnings():
            warnings.simplefilter("ignore")
            loop.run_until_complete(main())
    finally:
        D.socket.socket = real_socket
        asyncio.set_event_loop(None)
        out["unhandled"] = len(loop.unhandled)
        loop.close()
    return out


def run_searches(gen, rounds, remote_host=None):
    """several searches in a row on ONE discoverer object (an application that looks for consoles again later); rounds: [arrivals, ...]
    -> [dict as run_search, ...]"""
    import pyairtouch.comms.discovery as D
    mod = __import__("pyairtouch.at%d.comms.discovery" % gen, fromlist=["x"])
    loop = vloop.VLoop()
    net = vloop.Net(loop)
    loop.net = net
    real_socket = D.socket.socket
    D.socket.socket = _FakeSocket
    outs = []

    async def main():
        disc = D.AirTouchDiscoverer(mod.CONFIG, remote_host=remote_host)
        for arrivals in rounds:
            out = {}
            n_udp = len(net.udp)
            t0 = loop.time()
            task = loop.create_task(disc.search())
            await asyncio.sleep(0)

            def deliver(data, n_udp=n_udp):
                if len(net.udp) > n_udp:
                    tr = net.udp[-1]
                    if not tr.closed:
                        try:
                            tr.proto.datagram_received(data, ("192.168.1.5", mod.PORT))
                        except Exception as e:  # noqa: BLE001
                            loop.call_exception_handler({"message": "datagram_received failed", "exception": e})
            for t, data in arrivals:
                loop.call_at(t0 + t * TICK, deliver, data)
            res = await task
            out["ret"] = ticks(loop.time() - t0)
            out["responses"] = res
            sent = net.udp[-1].sent if len(net.udp) > n_udp else []
            out["sent"] = [ticks(t - t0) for (t, d, a) in sent]
            out["data"] = [d for (t, d, a) in sent]
            out["dest"] = [a for (t, d, a) in sent]
            out["closed"] = all(tr.closed for tr in net.udp)
            await asyncio.sleep(40 * TICK)
            out["pending"] = len([t for t in asyncio.all_tasks(loop) if t is not asyncio.current_task() and not t.done()])
            outs.append(out)

    asyncio.set_event_loop(loop)
    try:
        with warnings.catch_warnings():
            warnings.simplefilter("ignore")
            loop.run_until_complete(main())
    finally:
        D.socket.socket = real_socket
        asyncio.set_event_loop(None)
        for o in outs:
            o["unhandled"] = len(loop.unhandled)
        loop.close()
    return outs


def run_factory(arrivals4, arrivals5, remote_host=None):
    """factory.discover() with both discoverers; -> list of (model, host, port, id, name, serial)"""
    import pyairtouch.comms.discovery as D
    import pyairtouch.factory as F
    loop = vloop.VLoop()
    net = vloop.Net(loop)
    loop.net = net
    real_socket = D.socket.socket
    D.socket.socket = _FakeSocket
    out = {}

    async def main():
        t0 = loop.time()
        task = loop.create_task(F.discover(remote_host))
        await asyncio.sleep(0)
        await asyncio.sleep(0)

        def deliver(port, data):
            for tr in net.udp:
                sockport = tr.kw.get("sock").bound[1] if tr.kw.get("sock") is not None else None
                if sockport == port and not tr.closed:
                    try:
                        tr.proto.datagram_received(data, ("192.168.1.5", port))
                    except Exception as e:  # noqa: BLE001
                        loop.call_exception_handler({"message": "datagram_received failed", "exception": e})
        for t, data in arrivals4:
            loop.call_at(t0 + t * TICK, deliver, 49004, data)
        for t, data in arrivals5:
            loop.call_at(t0 + t * TICK, deliver, 49005, data)
        res = await task
        out["clients"] = [(a.model.name, a.host, a._socket.port, a.airtouch_id, a.name, a.serial) for a in res]
        out["ret"] = ticks(loop.time() - t0)

    asyncio.set_event_loop(loop)
    try:
        with warnings.catch_warnings():
            warnings.simplefilter("ignore")
            loop.run_until_complete(main())
    finally:
        D.socket.socket = real_socket
        asyncio.set_event_loop(None)
        loop.close()
    return out
