"""Diagnostic only (not part of any check): which lines of the package do the checks execute?

Enable with VERIF_COV_DIR=<dir>: every process of a check run (including forked pool workers) records the executed lines of
files under <repo>/pyairtouch and dumps them to <dir>/<pid>.json when it exits.  `python harness/covtrace.py <dir>` merges the
dumps and prints, per file, the executable lines never executed (so that generator gaps become visible)."""
import atexit
import json
import os
import signal
import sys
import threading

_SEEN = set()
_PREFIX = None
_DIR = None


def _local(frame, event, arg):
    if event == "line":
        _SEEN.add((frame.f_code.co_filename, frame.f_lineno))
    return _local


def _global(frame, event, arg):
    if frame.f_code.co_filename.startswith(_PREFIX):
        _SEEN.add((frame.f_code.co_filename, frame.f_lineno))
        return _local
    return None


def _dump():
    if not _SEEN:
        return
    try:
        with open(os.path.join(_DIR, "%d.json" % os.getpid()), "w") as f:
            json.dump(sorted(_SEEN), f)
    except OSError:
        pass


def _child():
    def on_term(signum, frame):
        _dump()
        os._exit(0)
    signal.signal(signal.SIGTERM, on_term)
    sys.settrace(_global)


def install(repo):
    global _PREFIX, _DIR
    _DIR = os.environ.get("VERIF_COV_DIR")
    if not _DIR:
        return
    os.makedirs(_DIR, exist_ok=True)
    _PREFIX = os.path.join(os.path.realpath(repo), "pyairtouch")
    sys.settrace(_global)
    threading.settrace(_global)
    atexit.register(_dump)
    os.register_at_fork(after_in_child=_child)

    def on_term(signum, frame):
        _dump()
        os._exit(3)
    signal.signal(signal.SIGTERM, on_term)


def report(d, repo="/repo"):
    import ast
    seen = {}
    for fn in os.listdir(d):
        if fn.endswith(".json"):
            for f, ln in json.load(open(os.path.join(d, fn))):
                seen.setdefault(f, set()).add(ln)
    root = os.path.join(os.path.realpath(repo), "pyairtouch")
    total = hit = 0
    for dp, _, fns in sorted(os.walk(root)):
        for fn in sorted(fns):
            if not fn.endswith(".py"):
                continue
            path = os.path.join(dp, fn)
            tree = ast.parse(open(path).read())
            lines = set()
            for node in ast.walk(tree):
                if isinstance(node, ast.stmt) and not isinstance(node, (ast.FunctionDef, ast.AsyncFunctionDef, ast.ClassDef, ast.Import, ast.ImportFrom)):
                    if isinstance(node, ast.Expr) and isinstance(node.value, ast.Constant) and isinstance(node.value.value, str):
                        continue
                    lines.add(node.lineno)
            got = seen.get(path, set())
            miss = sorted(lines - got)
            total += len(lines)
            hit += len(lines & got)
            if miss:
                print("%-55s %4d/%4d  missed: %s" % (os.path.relpath(path, root), len(lines & got), len(lines), _ranges(miss)))
    print("TOTAL %d/%d statements executed" % (hit, total))


def _ranges(xs):
    out, i = [], 0
    while i < len(xs):
        j = i
        while j + 1 < len(xs) and xs[j + 1] <= xs[j] + 2:
            j += 1
        out.append(str(xs[i]) if i == j else "%d-%d" % (xs[i], xs[j]))
        i = j + 1
    return " ".join(out)


if __name__ == "__main__":
    report(sys.argv[1], sys.argv[2] if len(sys.argv) > 2 else "/repo")
