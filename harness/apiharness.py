"""API-level harness: the real AirTouch4 / AirTouch5 object on the virtual-clock loop over a *stub socket*.

The stub records `send(message, retry_policy)`, `open_socket`, `close`, `reset_connection`, and lets the script
deliver connection changes and messages to the subscribers the API object registered.  Messages are given
as payload bytes of a registered message id and decoded with the REAL registry decoder, so the Lean model
can be fed the same bytes.  After every op the harness emits output lines:

  SEND <POLICY> <canonical message>       POLICY = IDEMPOTENT | NON_IDEMPOTENT | CONNECTED | (r,l)
  NOTIFY at <airtouch id text> <sid> | NOTIFY ac <ac id> <sid> | NOTIFY zone <zone id> <sid>   (sorted within an op)
  OPEN | CLOSE | RESET | HBSTART | HBSTOP
  RESULT <OK|True|False|ValueError|...>    for call / init / shutdown completion
  VIEW <canonical view of the whole public object model>   (op `view`)

Ops (one per line; the same lines drive the Lean model through `driver`):
  new <gen>                       fresh API object (ids/serial/name fixed)
  init                            start `init()` as a task (completion reported later as `RESULT init True|False`)
  shutdown                        await shutdown()
  conn <0|1>                      connection changed notification from the socket
  msg <message id hex> <payload hex|-> [<to_address hex>]   a frame with this top-level message id and payload arrives
                                  (header to_address 0xB0 unless given)
  call at check_for_updates
  call ac <id> set_power <TOGGLE|TURN_OFF|TURN_ON|...> | set_mode <MODE> <power_on 0|1> | set_fan_speed <SPEED>
            | set_target_temperature <tenths-or-x20ths e.g. 21.5> | set_quick_timer <OFF_TIMER|ON_TIMER> time <h> <m>
            | set_quick_timer <TYPE> duration <seconds> | clear_quick_timer <TYPE>
  call zone <id> set_power <OFF|ON|TURBO> | set_target_temperature <float> | set_damper_percentage <int>
  sub at <sid> [raise] | sub ac <id> <general|state> <sid> [raise] | sub zone <id> <sid> [raise] | unsub ... (same shapes)
  adv <ticks>                     advance the virtual clock
  view
"""
import asyncio
import datetime

import vloop
from canon import canon
from vloop import TICK, ticks


def tenths(x):
    if x is None:
        return "None"
    q = x * 10.0
    r = round(q)
    if abs(q - r) > 1e-6:
        return "f%r" % x
    return "t%d" % r


def view_zone(z):
    return "Zone(" + ",".join([
        "zone_id=%d" % z.zone_id, "name=%s" % canon(z.name),
        "supported_power_states=[%s]" % ",".join(p.name for p in z.supported_power_states),
        "power_state=%s" % z.power_state.name, "control_method=%s" % z.control_method.name,
        "has_temp_sensor=%s" % z.has_temp_sensor, "sensor_battery_status=%s" % z.sensor_battery_status.name,
        "current_temperature=%s" % tenths(z.current_temperature), "target_temperature=%s" % tenths(z.target_temperature),
        "target_temperature_resolution=%s" % tenths(z.target_temperature_resolution),
        "current_damper_percentage=%d" % z.current_damper_percentage, "spill_active=%s" % z.spill_active]) + ")"


def view_ac(a):
    import pyairtouch.api as api
    def timer(tt):
        t = a.next_quick_timer(tt)
        return "None" if t is None else "tm%d:%d" % (t.hour, t.minute)
    e = a.error_info
    return "AC(" + ",".join([
        "ac_id=%d" % a.ac_id, "name=%s" % canon(a.name),
        "supported_power_controls=[%s]" % ",".join(p.name for p in a.supported_power_controls),
        "supported_modes=[%s]" % ",".join(p.name for p in a.supported_modes),
        "supported_fan_speeds=[%s]" % ",".join(p.name for p in a.supported_fan_speeds),
        "power_state=%s" % a.power_state.name, "selected_mode=%s" % a.selected_mode.name, "active_mode=%s" % a.active_mode.name,
        "selected_fan_speed=%s" % a.selected_fan_speed.name, "active_fan_speed=%s" % a.active_fan_speed.name,
        "current_temperature=%s" % tenths(a.current_temperature), "target_temperature=%s" % tenths(a.target_temperature),
        "target_temperature_resolution=%s" % tenths(a.target_temperature_resolution),
        "min_target_temperature=%s" % tenths(a.min_target_temperature), "max_target_temperature=%s" % tenths(a.max_target_temperature),
        "spill_state=%s" % a.spill_state.name,
        "off_timer=%s" % timer(api.AcTimerType.OFF_TIMER), "on_timer=%s" % timer(api.AcTimerType.ON_TIMER),
        "error_info=%s" % ("None" if e is None else "Err(code=%d,description=%s)" % (e.code, canon(e.description))),
        "zones=[%s]" % ",".join(view_zone(z) for z in a.zones)]) + ")"


def view_at(at):
    return "AirTouch(" + ",".join([
        "initialised=%s" % at.initialised, "airtouch_id=%s" % canon(at.airtouch_id), "serial=%s" % canon(at.serial),
        "name=%s" % canon(at.name), "host=%s" % canon(at.host), "model=%s" % at.model.name,
        "update_available=%s" % at.update_available, "console_versions=%s" % canon(list(at.console_versions)),
        "air_conditioners=[%s]" % ",".join(view_ac(a) for a in at.air_conditioners)]) + ")"


class StubSocket:
    def __init__(self, loop, out, host):
        self.loop = loop
        self.out = out
        self.host = host
        self.port = 0
        self.is_open = False
        self.is_connected = False
        self.conn_subs = []
        self.msg_subs = []
        self.sent = []            # (message object, retry policy) of every accepted send, in order

    async def open_socket(self):
        self.is_open = True
        self.out.append("OPEN")

    async def close(self):
        self.is_open = False
        self.is_connected = False
        self.out.append("CLOSE")

    async def reset_connection(self):
        self.out.append("RESET")

    def subscribe_on_connection_changed(self, s):
        if s not in self.conn_subs:
            self.conn_subs.append(s)

    def unsubscribe_on_connection_changed(self, s):
        if s in self.conn_subs:
            self.conn_subs.remove(s)

    def subscribe_on_message_received(self, s):
        if s not in self.msg_subs:
            self.msg_subs.append(s)

    def unsubcribe_on_message_received(self, s):
        if s in self.msg_subs:
            self.msg_subs.remove(s)

    async def send(self, message, retry_policy):
        import pyairtouch.comms.socket as S
        if not self.is_open:
            raise S.NotOpenError
        name = {id(S.RETRY_IDEMPOTENT): "IDEMPOTENT", id(S.RETRY_NON_IDEMPOTENT): "NON_IDEMPOTENT",
                id(S.RETRY_CONNECTED): "CONNECTED"}.get(id(retry_policy))
        if name is None:
            name = "(%d,%d)" % (retry_policy.max_retries, ticks(retry_policy.max_lifetime))
        self.sent.append((message, retry_policy))
        self.out.append("SEND %s %s" % (name, canon(message)))

    async def send_with_header(self, header, message, retry_policy):
        await self.send(message, retry_policy)


class Api:
    def __init__(self, gen):
        import pyairtouch.comms.heartbeat as H
        self.gen = gen
        self.loop = vloop.VLoop()
        self.loop.net = vloop.Net(self.loop)
        self.out = []
        self.sock = StubSocket(self.loop, self.out, "console.local")
        if gen == 4:
            import pyairtouch.at4.api as A
            import pyairtouch.at4.comms.registry as R
            import pyairtouch.at4.comms.hdr as HD
            self.at = A.AirTouch4(self.loop, "at-id-1", "serial-1", "AirTouch 4", self.sock)
            self.hdr = lambda mid, n: HD.At4Header(0xB0, 0x80 if mid != 0x1F else 0x90, 1, mid, n)
        else:
            import pyairtouch.at5.api as A
            import pyairtouch.at5.comms.registry as R
            import pyairtouch.at5.comms.hdr as HD
            self.at = A.AirTouch5(self.loop, "at-id-1", "serial-1", "Home", self.sock)
            self.hdr = lambda mid, n: HD.At5Header(0xB0, 0x80 if mid != 0x1F else 0x90, 1, mid, n)
        self.reg = R.INSTANCE
        self.subs = {}
        self.init_task = None
        # heartbeat start/stop visibility
        hb = self.at._heartbeat_manager
        orig_start, orig_stop = hb.start, hb.stop
        api = self

        async def start():
            api.out.append("HBSTART")
            await orig_start()

        async def stop():
            api.out.append("HBSTOP")
            await orig_stop()

        hb.start, hb.stop = start, stop

    # ------------------------------------------------------------------ helpers
    def _ac(self, i):
        for a in self.at.air_conditioners:
            if a.ac_id == i:
                return a
        raise KeyError("no AC %d" % i)

    def _zone(self, i):
        for a in self.at.air_conditioners:
            for z in a.zones:
                if z.zone_id == i:
                    return z
        raise KeyError("no zone %d" % i)

    def _subscriber(self, kind, sid, raises, flavour=None):
        api = self

        class Sub:
            undo = None

            def __call__(self, ident):
                if flavour == "syncraise":
                    # a plain callable (the subscriber type is "callable returning an awaitable") that fails before it returns its awaitable
                    api.out.append("NOTIFY %s %s %s" % (kind, canon(ident) if isinstance(ident, str) else ident, sid))
                    raise RuntimeError("subscriber %s raises before returning an awaitable" % sid)
                return self._run(ident)

            async def _run(self, ident):
                if flavour == "slow":
                    # a subscriber that does a little I/O of its own before it handles the news: it counts as notified when it has
                    # got that far (a notification that is cancelled half way was not delivered)
                    for _ in range(3):
                        await asyncio.sleep(0)
                api.out.append("NOTIFY %s %s %s" % (kind, canon(ident) if isinstance(ident, str) else ident, sid))
                if flavour == "once" and self.undo is not None:
                    self.undo(self)                     # a one-shot subscriber: unsubscribes itself from inside its callback
                elif flavour == "caller":
                    await api.at.check_for_updates()    # an application reacting to news with a request of its own
                if raises:
                    # applications raise all sorts of things: with a message, without arguments (a bare TimeoutError from a wait_for,
                    # a failed assert, a KeyError)
                    k = sum(sid.encode()) % 4
                    if k == 0:
                        raise RuntimeError("subscriber %s raises" % sid)
                    if k == 1:
                        raise TimeoutError
                    if k == 2:
                        raise AssertionError
                    raise KeyError

            def __hash__(self):
                return hash((kind, sid))

            def __eq__(self, o):
                # [API5] harness fix: `Sub` is a fresh class per call, so `isinstance(o, Sub)` made every subscriber
                # object unique (sub twice = two subscribers, unsub = no-op); identity is the key (kind, sid)
                return getattr(o, "key", None) == self.key
        s = Sub()
        s.key = (kind, sid)
        return s

    async def _settle(self):
        for _ in range(6):
            await asyncio.sleep(0)

    # ------------------------------------------------------------------ ops
    async def op(self, words):
        import pyairtouch.api as api
        k = words[0]
        if k == "init":
            async def run():
                r = await self.at.init()
                self.out.append("RESULT init %s" % r)
            self.init_task = self.loop.create_task(run())
            await self._settle()
        elif k == "shutdown":
            await self.at.shutdown()
            self.out.append("RESULT shutdown OK")
        elif k == "conn":
            up = words[1] == "1"
            self.sock.is_connected = up
            for s in list(self.sock.conn_subs):
                try:
                    await s(connected=up)
                except Exception as e:  # noqa: BLE001  (the real socket logs and continues)
                    self.out.append("SUBSCRIBER-EXC %s" % type(e).__name__)
            await self._settle()
        elif k == "msg":
            mid = int(words[1], 16)
            payload = bytes.fromhex(words[2]) if words[2] != "-" else b""
            hdr = self.hdr(mid, len(payload))
            if len(words) > 3:  # [API5] optional 4th word: header to_address (hex), for the AirTouch 5 echo rule
                import dataclasses
                hdr = dataclasses.replace(hdr, to_address=int(words[3], 16))
            try:
                r = self.reg.get_decoder(mid).decode(payload, hdr)
                r.assert_complete()
            except Exception as e:  # noqa: BLE001
                self.out.append("UNDECODABLE %s" % type(e).__name__)
                return
            for s in list(self.sock.msg_subs):
                try:
                    await s(hdr, r.message)
                except Exception as e:  # noqa: BLE001
                    self.out.append("SUBSCRIBER-EXC %s" % type(e).__name__)
            await self._settle()
        elif k == "call":
            try:
                await self._call(words[1:], api)
                self.out.append("RESULT OK")
            except ValueError:
                self.out.append("RESULT ValueError")
            except KeyError as e:
                self.out.append("RESULT KeyError")
            except Exception as e:  # noqa: BLE001
                self.out.append("RESULT %s" % type(e).__name__)
        elif k in ("sub", "unsub"):
            self._subunsub(k, words[1:])
        elif k == "adv":
            await asyncio.sleep(int(words[1]) * TICK)
            await self._settle()
        elif k == "view":
            self.out.append("VIEW " + view_at(self.at))
        else:
            raise ValueError("unknown op %r" % (words,))

    async def _call(self, w, api):
        if w[0] == "at":
            if w[1] == "check_for_updates":
                await self.at.check_for_updates()
            return
        if w[0] == "ac":
            a = self._ac(int(w[1]))
            m = w[2]
            if m == "set_power":
                await a.set_power(api.AcPowerControl[w[3]])
            elif m == "set_mode":
                await a.set_mode(api.AcMode[w[3]], power_on=(w[4] == "1"))
            elif m == "set_fan_speed":
                await a.set_fan_speed(api.AcFanSpeed[w[3]])
            elif m == "set_target_temperature":
                await a.set_target_temperature(float(w[3]))
            elif m == "set_quick_timer":
                tt = api.AcTimerType[w[3]]
                if w[4] == "time":
                    await a.set_quick_timer(tt, datetime.time(hour=int(w[5]), minute=int(w[6])))
                else:
                    await a.set_quick_timer(tt, datetime.timedelta(seconds=int(w[5])))
            elif m == "clear_quick_timer":
                await a.clear_quick_timer(api.AcTimerType[w[3]])
            else:
                raise ValueError(m)
        elif w[0] == "zone":
            z = self._zone(int(w[1]))
            m = w[2]
            if m == "set_power":
                await z.set_power(api.ZonePowerState[w[3]])
            elif m == "set_target_temperature":
                await z.set_target_temperature(float(w[3]))
            elif m == "set_damper_percentage":
                await z.set_damper_percentage(int(w[3]))
            else:
                raise ValueError(m)

    def _subunsub(self, k, w):
        raises = w[-1] == "raise"
        flavour = w[-1] if w[-1] in ("once", "caller", "syncraise", "slow") else None
        if raises or flavour:
            w = w[:-1]
        if w[0] == "at":
            s = self._subscriber("at", w[1], raises, flavour)
            s.undo = self.at.unsubscribe
            (self.at.subscribe if k == "sub" else self.at.unsubscribe)(s)
        elif w[0] == "ac":
            a = self._ac(int(w[1]))
            # sids both*: ONE callable registered through both subscribe() and subscribe_ac_state() (the same object on both channels)
            s = self._subscriber("ac", ("both:%s" % w[3]) if w[3].startswith("both") else "%s:%s" % (w[2], w[3]), raises, flavour)
            if w[2] == "general":
                s.undo = a.unsubscribe
                (a.subscribe if k == "sub" else a.unsubscribe)(s)
            else:
                s.undo = a.unsubscribe_ac_state
                (a.subscribe_ac_state if k == "sub" else a.unsubscribe_ac_state)(s)
        elif w[0] == "zone":
            z = self._zone(int(w[1]))
            s = self._subscriber("zone", w[2], raises, flavour)
            s.undo = z.unsubscribe
            (z.subscribe if k == "sub" else z.unsubscribe)(s)

    def run(self, lines):
        """-> list (one per op line) of output-line lists"""
        results = []
        self.op_sent = []         # per op line: the message objects it made the API send
        loop = self.loop
        asyncio.set_event_loop(loop)

        async def main():
            for line in lines:
                self.out.clear()
                n_sent = len(self.sock.sent)
                try:
                    await self.op(line.split())
                except KeyError as e:
                    self.out.append("RESULT KeyError")
                notes = sorted(x for x in self.out if x.startswith("NOTIFY"))
                rest = [x for x in self.out if not x.startswith("NOTIFY")]
                results.append(rest + notes)
                self.op_sent.append(self.sock.sent[n_sent:])
            if self.init_task and not self.init_task.done():
                self.init_task.cancel()
            try:
                await self.at.shutdown()
            except Exception:  # noqa: BLE001
                pass
        try:
            loop.run_until_complete(main())
        finally:
            asyncio.set_event_loop(None)
            loop.close()
        return results


def run_ops(gen, lines):
    return Api(gen).run(lines)
