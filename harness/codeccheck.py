"""Runs the codec differential (see codec.py) for a set of modules and records the outcome in ctx."""
import importlib
import json
import os

import codec


def load_generators():
    gens = {}
    here = os.path.dirname(os.path.abspath(__file__))
    for f in sorted(os.listdir(here)):
        if f.startswith("codecgen_") and f.endswith(".py"):
            m = importlib.import_module(f[:-3])
            gens.update(getattr(m, "GENERATORS", {}))
    return gens


def exhaustive_records(mod):
    """every byte value at every byte position of one record over a few base patterns (style E)"""
    out = []
    if not mod.rec:
        return out
    rec = mod.rec
    bases = [bytes([0] * rec), bytes([0xFF] * rec), bytes([0x80] * rec), bytes([0x55, 0xAA] * rec)[:rec],
             bytes([0x7F, 0x80, 0x41, 0x80, 0x61, 0x80, 0x12, 0x34, 0x56, 0x78][:rec])]
    for base in bases:
        for pos in range(rec):
            for v in range(256):
                b = bytearray(base)
                b[pos] = v
                hp = [0, rec, 1] if mod.kind == "cs" else [rec]
                out.append((bytes(b), hp))
    return out


def run_module(ctx, mod, n, prop="C03", check_roundtrip=True, pairs=False):
    rng = ctx.rng
    gens = load_generators()
    g = gens.get((mod.gen, mod.key))
    cases = exhaustive_records(mod)
    if pairs and mod.rec:
        rec = mod.rec
        for pos in range(rec - 1):
            for v in range(0, 65536, 1):
                b = bytearray([0x41] * rec)
                b[pos] = v >> 8
                b[pos + 1] = v & 0xFF
                cases.append((bytes(b), [0, rec, 1] if mod.kind == "cs" else [rec]))
    for _ in range(n):
        if g is not None and rng.random() < 0.7:
            cases.append(g(rng))
        else:
            cases.append(codec.gen_payload(mod, rng))
    tag = "%d/%s" % (mod.gen, mod.key)
    reals = [codec.real_decode(mod, p, hp) for p, hp in cases]
    model = ctx.driver(["dec %d %s %s %s" % (mod.gen, mod.key, codec.hp_text(hp), codec.hx(p)) for p, hp in cases]) \
        if ctx.driver_ok else [None] * len(cases)
    re_lines = []
    re_idx = []
    for i, ((p, hp), (txt, msg)) in enumerate(zip(cases, reals)):
        ctx.case((tag, p, tuple(hp)), nontrivial=len(p) > 0)
        if msg is None:
            ctx.count("%s:%s" % (tag, txt))
        else:
            ctx.count("%s:decoded" % tag)
            re_lines.append("reenc %d %s %s %s" % (mod.gen, mod.key, codec.hp_text(hp), codec.hx(p)))
            re_idx.append(i)
        if model[i] is not None and model[i] != txt:
            ctx.tie_broken("correspondence:decode %s" % tag,
                           "model %r != implementation %r on payload %s hdr %s" % (model[i][:300], txt[:300], codec.hx(p), hp),
                           input=[mod.gen, mod.key, codec.hx(p), hp])
    re_model = ctx.driver(re_lines) if (ctx.driver_ok and re_lines) else [None] * len(re_lines)
    wf = ctx.driver(["wf" + l[5:] for l in re_lines]) if (ctx.driver_ok and re_lines) else ["1"] * len(re_lines)
    worst = None
    for j, i in enumerate(re_idx):
        (p, hp), (txt, msg) = cases[i], reals[i]
        rtxt, data = codec.real_reencode(mod, msg)
        if re_model[j] is not None and re_model[j] != rtxt:
            ctx.tie_broken("correspondence:encode %s" % tag,
                           "model %r != implementation %r for message %s" % (re_model[j][:300], rtxt[:300], txt[:300]),
                           input=[mod.gen, mod.key, codec.hx(p), hp])
        if wf[j] != "1":
            ctx.count("%s:not-well-formed" % tag)
            continue           # outside the property's quantifier (field values not in their protocol domains)
        if check_roundtrip and data is None:
            if worst is None:
                worst = (p, hp, txt, rtxt, "the encoder raised on a well-formed message")
        if check_roundtrip and data is not None:
            why = codec.roundtrip_ok(mod, msg, data)
            if why is not None:
                if worst is None or len(p) < len(worst[0]):
                    worst = (p, hp, txt, rtxt, why)
    if worst is not None:
        p, hp, txt, rtxt, why = worst
        ctx.violation("%s:roundtrip:%s" % (prop, tag),
                      "message %s (decoded from %s) does not survive encode/decode on the implementation: %s" % (txt[:400], codec.hx(p), why),
                      kind="input", module=[mod.gen, mod.key], payload=codec.hx(p), hp=hp, implementation_output=rtxt, spec_verdict=why)
    if cases:
        ctx.sample({"module": tag, "payload": codec.hx(cases[-1][0]), "hp": cases[-1][1], "decoded": reals[-1][0][:200]})


def replay_roundtrip(ctx, data):
    gen, key = data["module"]
    mod = codec.find(gen, key)
    p = bytes.fromhex(data["payload"]) if data["payload"] != "-" else b""
    txt, msg = codec.real_decode(mod, p, data["hp"])
    print("decoded:", txt)
    if msg is None:
        return 0
    rtxt, enc = codec.real_reencode(mod, msg)
    print("re-encoded:", rtxt)
    why = codec.roundtrip_ok(mod, msg, enc) if enc is not None else None
    print("round trip:", why or "ok")
    return 1 if why else 0
