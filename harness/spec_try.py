#!/venv/bin/python
"""spec_try.py [kind ...] - compare the REAL pyairtouch codecs with the vendor-document readers of
lean/PyAirtouch/Spec/At4Read.lean / At5Read.lean (oracle command `spec <gen> <kind> <hex>`).

Status kinds (property C05): payloads -> real decoder (inside its real wrapper: ExtendedMessageDecoder for the
0x1F kinds, ControlStatusDecoder for the 0xC0 kinds) -> specmap text, compared field by field with the oracle's
text after the named RELAXATIONS.  Control kinds (property C04): message objects -> real encoder (AT5: inside the
real ControlStatusEncoder) -> oracle, compared with specmap's rendering of the intended meaning and with the
set of attributes the object sets.

Environment: N (random structured payloads per kind, default 3000), PAIRS=1 (every 16-bit value of every
adjacent byte pair of a record), VERIF_SEED, VERIF_LEAN_DIR (scratch copy with the built oracle).
Kinds are given as <gen>/<kind>, e.g. 4/2B 5/C023; default: all sixteen.
"""
import importlib
import itertools
import os
import random
import re
import struct
import subprocess
import sys

HERE = os.path.dirname(os.path.abspath(__file__))
sys.path.insert(0, HERE)
sys.path.insert(0, os.environ.get("VERIF_REPO", "/repo"))
import core  # noqa: E402

if os.environ.get("VERIF_LEAN_DIR"):
    core.LEAN_DIR = os.environ["VERIF_LEAN_DIR"]
    core.BIN_DIR = os.path.join(core.LEAN_DIR, ".lake", "build", "bin")
import codec  # noqa: E402
import codeccheck  # noqa: E402
import specmap  # noqa: E402

N = int(os.environ.get("N", "3000"))
PAIRS = os.environ.get("PAIRS", "") not in ("", "0")
SEED = int(os.environ.get("VERIF_SEED", "1"))
CHUNK = 100000

STATUS_KINDS = [(4, "2B"), (4, "2D"), (4, "FF11"), (4, "FF12"), (4, "FF10"), (4, "FF30"),
                (5, "C021"), (5, "C023"), (5, "FF11"), (5, "FF13"), (5, "FF10"), (5, "FF30")]
CONTROL_KINDS = [(4, "2A"), (4, "2C"), (5, "C020"), (5, "C022")]


# ------------------------------------------------------------------------------------------------ oracle
def oracle(lines):
    exe = os.path.join(core.BIN_DIR, "oracle")
    if not os.path.exists(exe):
        raise SystemExit("oracle executable missing: " + exe)
    out = []
    for i in range(0, len(lines), CHUNK):
        part = lines[i:i + CHUNK]
        p = subprocess.run([exe], input="\n".join(part) + "\n", capture_output=True, text=True, timeout=3600)
        if p.returncode != 0:
            raise SystemExit("oracle crashed: " + p.stderr[-2000:])
        got = p.stdout.split("\n")
        if got and got[-1] == "":
            got.pop()
        if len(got) != len(part):
            raise SystemExit("oracle answered %d lines for %d requests" % (len(got), len(part)))
        out += got
    return out


def hx(data):
    return bytes(data).hex() if data else "-"


# ------------------------------------------------------------------------------------------------ real codecs
class Real:
    """the real decoder / encoder of one kind inside its real wrapper; `data` is what the oracle sees"""

    def __init__(self, gen, kind):
        self.gen, self.kind = gen, kind
        self.mod = codec.find(gen, kind)
        m = self.mod
        if m.kind == "top":
            from pyairtouch.at4.comms.hdr import At4Header
            self.H = At4Header
            self.wrap_dec = None
        elif m.kind == "ext":
            x = importlib.import_module("pyairtouch.at%d.comms.x1F_ext" % gen)
            h = importlib.import_module("pyairtouch.at%d.comms.hdr" % gen)
            self.H = getattr(h, "At%dHeader" % gen)
            self.wrap_dec = x.ExtendedMessageDecoder({m.m.MESSAGE_ID: m.dec})
            self.wrap_enc = x.ExtendedMessageEncoder({m.m.MESSAGE_ID: m.enc})
            self.wrap_msg = x.ExtendedMessage
            self.outer_id = 0x1F
        else:
            x = importlib.import_module("pyairtouch.at5.comms.xC0_ctrl_status")
            from pyairtouch.at5.comms.hdr import At5Header
            self.H = At5Header
            self.wrap_dec = x.ControlStatusDecoder({m.m.MESSAGE_ID: m.dec})
            self.wrap_enc = x.ControlStatusEncoder({m.m.MESSAGE_ID: m.enc})
            self.wrap_msg = x.ControlStatusMessage
            self.outer_id = 0xC0

    def prefix(self):
        """bytes of `data` in front of the sub-decoder's payload for the 0x1F kinds"""
        return struct.pack("!H", self.mod.m.MESSAGE_ID) if self.mod.kind == "ext" else b""

    def decode(self, data):
        """-> ('ok', message, remaining_len) or ('ERR:<exception>', None, 0).  The frame layer hands the decoder
        exactly header.message_length bytes (socket.py readexactly), so message_length = len(data)."""
        data = bytes(data)
        try:
            if self.wrap_dec is None:
                r = self.mod.dec.decode(data, self.H(to_address=0xB0, from_address=0x80, packet_id=1,
                                                     message_id=self.mod.m.MESSAGE_ID, message_length=len(data)))
                return "ok", r.message, len(r.remaining)
            r = self.wrap_dec.decode(data, self.H(to_address=0xB0, from_address=0x80, packet_id=1,
                                                  message_id=self.outer_id, message_length=len(data)))
            return "ok", r.message.sub_message, len(r.remaining)
        except Exception as e:  # noqa: BLE001
            return "ERR:" + type(e).__name__, None, 0

    def encode(self, msg):
        """-> ('ok', data) or ('ERR:<exception>', None): the data part of the frame the send path would build"""
        try:
            if self.mod.kind == "top":
                size = self.mod.enc.size(msg)
                h = self.H(to_address=0x80, from_address=0xB0, packet_id=1, message_id=self.mod.m.MESSAGE_ID,
                           message_length=size)
                return "ok", bytes(self.mod.enc.encode(h, msg))
            w = self.wrap_msg(sub_message=msg)
            size = self.wrap_enc.size(w)
            h = self.H(to_address=0x80, from_address=0xB0, packet_id=1, message_id=self.outer_id, message_length=size)
            data = bytes(self.wrap_enc.encode(h, w))
            if len(data) != size:
                return "ERR:size(%d)!=len(%d)" % (size, len(data)), None
            return "ok", data
        except Exception as e:  # noqa: BLE001
            return "ERR:" + type(e).__name__, None


def sub_header(sub_id, nr, stride, count):
    return struct.pack("!BxHHH", sub_id, nr & 0xFFFF, stride & 0xFFFF, count & 0xFFFF)


def raws_of(key, data):
    """the raw bytes of each record in the Spec's layout (for the byte-exact relaxations)"""
    gen, kind = key
    if key == (4, "2B"):
        return [data[i:i + 6] for i in range(0, len(data), 6)]
    if key == (4, "2D"):
        return [data[i:i + 8] for i in range(0, len(data), 8)]
    if key in ((5, "C021"), (5, "C023")) and len(data) >= 8:
        nr, st, cnt = struct.unpack("!HHH", data[2:8])
        return [data[8 + nr + st * i: 8 + nr + st * (i + 1)] for i in range(cnt)]
    return None


# ------------------------------------------------------------------------------------------------ status payloads
DOC_RECORD = {
    (4, "2B"): bytes.fromhex("41e41a806180"),
    (4, "2D"): bytes.fromhex("40421a0061800000"),
    (5, "C021"): bytes.fromhex("4080968002e70000"),
    (5, "C023"): bytes.fromhex("10127 8c002da0000".replace(" ", "")),
}


def bases(rec, doc):
    out = [bytes(rec), bytes([0xFF] * rec), bytes([0x80] * rec), (bytes([0x55, 0xAA]) * rec)[:rec],
           bytes([0x7F, 0x80, 0x41, 0x80, 0x61, 0x80, 0x12, 0x34, 0x56, 0x78, 0x9A, 0xBC, 0xDE, 0xF0][:rec])]
    if doc is not None:
        out.append((doc + bytes(rec))[:rec])
    return out


def sweep(base_list):
    """every byte value at every position of every base"""
    for base in base_list:
        for pos in range(len(base)):
            for v in range(256):
                r = bytearray(base)
                r[pos] = v
                yield bytes(r)


def pair_sweep(base, positions=None):
    for pos in (positions if positions is not None else range(len(base) - 1)):
        for v in range(65536):
            r = bytearray(base)
            r[pos] = v >> 8
            r[pos + 1] = v & 0xFF
            yield bytes(r)


NAME16 = b"UNIT" + bytes(12)
AB4 = bytes([0x00, 0x18]) + NAME16 + bytes([0x00, 0x04, 0x17, 0x1D, 0x11, 0x1F, 0x07, 0x00])        # 26 bytes
AB4_22 = bytes([0x01, 0x16]) + b"Caf\xc3\xa9" + bytes(11) + bytes([0x04, 0x04, 0x1F, 0x7F, 0x10, 0x20])   # 24 bytes
AB5 = bytes([0x00, 0x18]) + NAME16 + bytes([0x00, 0x04, 0x17, 0x1D, 0x10, 0x1F, 0x12, 0x1F])        # 26 bytes


# valid UTF-8 texts a permissive or "helpful" text decoder treats specially: byte-order mark first / inside, zero-width and
# combining characters, 4-byte characters, the edges of the surrogate gap, non-characters, control characters, leading / trailing blanks
TEXTS = codec.AWKWARD_TEXTS


def status_cases(real, rng):
    """yield `data` (what follows the frame header: the oracle's hex)"""
    key = (real.gen, real.kind)
    gen, kind = key
    mod = real.mod
    pre = real.prefix()
    gens = codeccheck.load_generators()
    g = gens.get(key)

    def from_generator(n):
        for _ in range(n):
            if g is not None and rng.random() < 0.8:
                payload, hp = g(rng)
            else:
                payload, hp = codec.gen_payload(mod, rng)
            if mod.kind == "cs":
                yield sub_header(mod.m.MESSAGE_ID, *hp) + bytes(payload)
                if rng.random() < 0.5:
                    # the same records, self-consistent lengths (what a conforming console sends)
                    nr, st, cnt = hp
                    if st > 0 and len(payload) >= nr:
                        cnt2 = (len(payload) - nr) // st
                        yield sub_header(mod.m.MESSAGE_ID, nr, st, cnt2) + bytes(payload[:nr + st * cnt2])
            else:
                yield pre + bytes(payload)        # message_length is the number of bytes present (frame layer)

    if key in ((4, "2B"), (4, "2D")):
        rec = mod.rec
        for r in sweep(bases(rec, DOC_RECORD[key])):
            yield r
        for r in sweep(bases(rec, DOC_RECORD[key])[-2:]):       # a swept record after an ordinary one
            yield DOC_RECORD[key] + r
        if PAIRS:
            for base in (DOC_RECORD[key], bytes([0x41] * rec)):
                for r in pair_sweep(base):
                    yield r
        yield b""
        for n in (2, 3, 4, 16):
            yield b"".join(bytes([i]) + DOC_RECORD[key][1:] for i in range(n))
        for n in range(1, 2 * rec):                               # lengths that are not whole records
            yield (DOC_RECORD[key] * 3)[:n]
    elif key in ((5, "C021"), (5, "C023")):
        sid = mod.m.MESSAGE_ID
        strides = [8, 10, 12] if kind == "C021" else [8, 10, 12, 14]
        for st in strides:                                        # strides >= the known size, padding swept too
            for r in sweep(bases(st, DOC_RECORD[key])):
                yield sub_header(sid, 0, st, 1) + r
            for r in sweep(bases(st, DOC_RECORD[key])[-1:]):      # second of two records
                yield sub_header(sid, 0, st, 2) + (DOC_RECORD[key] + bytes(st))[:st] + r
        if PAIRS:
            for st in (8, 10):
                for base in ((DOC_RECORD[key] + bytes(st))[:st], bytes([0x41] * st)):
                    for r in pair_sweep(base):
                        yield sub_header(sid, 0, st, 1) + r
        for st in range(0, 20):                                   # every stride, 0..3 records, exact length
            for cnt in range(0, 4):
                recs = b"".join((bytes([(0x40 if kind == "C021" else 0x10) | i]) + DOC_RECORD[key][1:] + bytes(range(1, 20)))[:st]
                                for i in range(cnt))
                yield sub_header(sid, 0, st, cnt) + recs
                for nr in (1, 2, 5):                              # announced normal data in front of the records
                    yield sub_header(sid, nr, st, cnt) + bytes([0x80 | (0x11 * k) & 0x7F for k in range(nr)]) + recs
        # normal data announced, records of the document's example behind it, every normal length 1..16
        for nr in range(1, 17):
            for cnt in (1, 2):
                for st in (8, 10):
                    recs = b"".join((bytes([(0x40 if kind == "C021" else 0x10) | i]) + DOC_RECORD[key][1:] + bytes(2))[:st]
                                    for i in range(cnt))
                    yield sub_header(sid, nr, st, cnt) + bytes(rng.randrange(256) for _ in range(nr)) + recs
        # lengths that do not match the sub-header
        good = sub_header(sid, 0, 8, 2) + DOC_RECORD[key] * 2
        for cut in range(1, 17):
            yield good[:-cut]
        for extra in (1, 2, 8):
            yield good + bytes(extra)
    elif key == (4, "FF12"):
        rec_bases = [bytes([0]) + b"Living\0\0", bytes([1]) + b"Kitchen\0", bytes([15]) + b"ABCDEFGH",
                     bytes([2]) + "Café".encode() + bytes(3), bytes(9), bytes([0xFF] * 9)]
        for r in sweep(rec_bases):
            yield pre + r
            yield pre + rec_bases[0] + r
        if PAIRS:
            for r in pair_sweep(rec_bases[0]):
                yield pre + r
        for n in range(0, 30):
            yield pre + (rec_bases[0] + rec_bases[1] + rec_bases[2] + bytes(9))[:n]
        yield pre + rec_bases[0] + bytes([0]) + b"Other\0\0\0" + rec_bases[1]      # a group number twice
        yield pre + b"".join(bytes([i]) + ("Zone%d" % i).encode().ljust(8, b"\0") for i in range(16))
        for t in TEXTS:
            if len(t) <= 8:
                yield pre + bytes([3]) + t.ljust(8, b"\0")
                yield pre + rec_bases[0] + bytes([3]) + t.ljust(8, b"\0")
    elif key == (4, "FF11"):
        for t in TEXTS:
            yield pre + AB4[:2] + t.ljust(16, b"\0") + AB4[18:]
            yield pre + AB4_22[:2] + t.ljust(16, b"\0") + AB4_22[18:]
        for r in sweep([AB4, AB4_22, bytes(26), bytes([0xFF] * 26), bytes([0, 22]) + bytes([0xFF] * 22)]):
            yield pre + r
        for r in sweep([AB4]):
            yield pre + AB4_22 + r
        if PAIRS:
            for r in pair_sweep(AB4, positions=[0, 1, 2, 16, 17] + list(range(18, 25))):
                yield pre + r
        # following lengths other than 22 / 24, the record really being that long ("honour the announced stride")
        for fl in range(0, 64):
            tail = bytes(range(0x21, 0x21 + 64))
            body = (AB4[2:24] + bytes([0x05, 0x80]) + tail)[:fl]
            one = bytes([0, fl]) + body
            yield pre + one
            yield pre + one + AB4_22
            yield pre + AB4_22 + one
            yield pre + one + bytes([2, fl]) + body
        for n in range(0, 56):
            yield pre + (AB4 + AB4_22)[:n]
        yield pre + AB4 + bytes([1]) + AB4[1:] + AB4_22 + bytes([3]) + AB4[1:]
    elif key == (5, "FF11"):
        for r in sweep([AB5, bytes(26), bytes([0xFF] * 26), bytes([3, 24]) + b"Caf\xc3\xa9" + bytes(11) + bytes([0xFF] * 8)]):
            yield pre + r
        for r in sweep([AB5]):
            yield pre + AB5 + r
        if PAIRS:
            for r in pair_sweep(AB5, positions=[0, 1, 2, 16, 17] + list(range(18, 25))):
                yield pre + r
        for fl in range(0, 80):
            tail = bytes(range(0x21, 0x21 + 80))
            body = (AB5[2:] + tail)[:fl]
            one = bytes([0, fl]) + body
            yield pre + one
            yield pre + one + AB5
            yield pre + AB5 + one
            yield pre + one + bytes([2, fl]) + body
        for n in range(0, 56):
            yield pre + (AB5 + AB5)[:n]
        yield pre + b"".join(bytes([i]) + AB5[1:] for i in range(8))
        for t in TEXTS:
            yield pre + AB5[:2] + t.ljust(16, b"\0") + AB5[18:]
    elif key == (5, "FF13"):
        rec_bases = [bytes([0, 6]) + b"Living", bytes([1, 7]) + b"Kitchen", bytes([2, 5]) + "Café".encode(),
                     bytes([3, 0]), bytes([0xFF, 3, 0xFF, 0xFF, 0xFF])]
        for r in sweep(rec_bases):
            yield pre + r
            yield pre + rec_bases[0] + r
            yield pre + r + rec_bases[1]
        if PAIRS:
            for r in pair_sweep(rec_bases[0]):
                yield pre + r
        allz = rec_bases[0] + rec_bases[1] + rec_bases[2] + rec_bases[3]
        for n in range(0, len(allz) + 1):
            yield pre + allz[:n]
        yield pre + rec_bases[0] + bytes([0, 5]) + b"Other" + rec_bases[1]          # a zone number twice
        yield pre + b"".join(bytes([i, 5]) + ("Zone%x" % i).encode() for i in range(16))
        yield pre + bytes([4, 255]) + b"x" * 255
        for t in TEXTS:
            yield pre + bytes([5, len(t)]) + t
            yield pre + rec_bases[0] + bytes([5, len(t)]) + t + rec_bases[1]
    elif kind == "FF10":
        for t in TEXTS:
            yield pre + bytes([1, len(t)]) + t
        msgs = [bytes([0, 8]) + b"ER: FFFE", bytes([1, 0]), bytes([3, 5]) + "Café".encode(), bytes([0xFF, 2, 0xFF, 0xFF])]
        for r in sweep(msgs):
            yield pre + r
        if PAIRS:
            for r in pair_sweep(msgs[0]):
                yield pre + r
        for n in range(0, 12):
            yield pre + msgs[0][:n]
        yield pre + msgs[0] + b"\0"
        yield pre + bytes([2, 255]) + b"E" * 255
        yield pre + bytes([2, 255]) + b"E" * 254
    elif kind == "FF30":
        sep = b"|" if gen == 4 else b","
        other = b"," if gen == 4 else b"|"
        msgs = [bytes([0, 11]) + b"1.3.3" + sep + b"1.3.3", bytes([1, 5]) + b"1.0.5", bytes([0, 0]),
                bytes([2, 11]) + b"1.3.3" + other + b"1.3.3", bytes([0xFF, 3]) + sep * 3,
                bytes([0, 6]) + "Café".encode() + sep]
        for r in sweep(msgs):
            yield pre + r
        if PAIRS:
            for r in pair_sweep(msgs[0]):
                yield pre + r
        for n in range(0, 14):
            yield pre + msgs[0][:n]
        yield pre + msgs[0] + b"\0"
    for d in from_generator(N):
        yield d


# ------------------------------------------------------------------------------------------------ judging
def norm_class(detail):
    """a mismatch class: the detail with numbers / hex strings generalised"""
    d = re.sub(r"\b[0-9a-f]{6,}\b", "<hex>", detail)
    d = re.sub(r"-?\d+", "#", d)
    return d


UNDEFINED = re.compile(r"=not_available|=other\(")


class Tally:
    def __init__(self):
        self.cases = 0
        self.mismatches = 0
        self.out_of_domain = 0   # control objects outside the documented value ranges among the mismatches
        self.classes = {}        # class -> [count, example]
        self.notes = {}          # informational classes -> [count, example]
        self.relax = {}

    def mismatch(self, key, detail, example):
        self.mismatches += 1
        c = "%d/%s %s" % (key[0], key[1], norm_class(detail))
        e = self.classes.setdefault(c, [0, example])
        e[0] += 1
        if len(example) < len(e[1]):
            e[1] = example

    def note(self, key, what, example):
        c = "%d/%s %s" % (key[0], key[1], norm_class(what))
        e = self.notes.setdefault(c, [0, example])
        e[0] += 1
        if len(example) < len(e[1]):
            e[1] = example


def context(key, data, spec_text):
    """a cause tag for a mismatch when the payload uses a documented length field in a way that identifies the
    cause; all mismatches with the same tag form ONE class (the first differing field varies with the bytes)"""
    if key in ((5, "C021"), (5, "C023")) and len(data) >= 8:
        nr, st, cnt = struct.unpack("!HHH", data[2:8])
        if nr:
            return "[non-zero normal data length announced in the sub-header]"
        if st > 8 and cnt > 1:
            return "[announced repeat length larger than the documented record, more than one record]"
    return ""


def run_status(key, tally, rng):
    real = Real(*key)
    seen = set()
    cnt = dict(agree=0, impl_rejects=0, both_reject=0, spec_none=0, request=0, mismatch=0, relaxed=0)
    n = 0
    block = []

    def flush():
        nonlocal n
        if block:
            n += len(block)
            judge_block(key, real, block, tally, cnt)
            del block[:]

    for d in status_cases(real, rng):
        if d in seen:
            continue
        seen.add(d)
        block.append(d)
        if len(block) >= CHUNK:
            flush()
    flush()
    tally.cases += n
    print("%d/%-5s cases %7d  agree %7d (using a relaxation %6d)  implementation-rejects %7d (+ both reject %7d)  "
          "spec-not-a-message %6d  request-form %4d  MISMATCH %6d"
          % (key[0], key[1], n, cnt["agree"], cnt["relaxed"], cnt["impl_rejects"], cnt["both_reject"],
             cnt["spec_none"], cnt["request"], cnt["mismatch"]), flush=True)


def judge_block(key, real, datas, tally, cnt):
    spec = oracle(["spec %d %s %s" % (key[0], key[1], hx(d)) for d in datas])
    want_cls = specmap.MESSAGE_CLASS[key]
    for d, s in zip(datas, spec):
        if s == "bad-op":
            raise SystemExit("oracle does not know spec %d %s" % key)
        st, msg, rem = real.decode(d)
        if msg is None:
            if s == "none":
                cnt["both_reject"] += 1
            else:
                cnt["impl_rejects"] += 1
                if not UNDEFINED.search(s):
                    tally.note(key, "implementation rejects (%s) a payload whose Spec reading has only defined values" % st[4:],
                               "%s -> spec: %s" % (hx(d), s[:160]))
            continue
        if type(msg).__name__ != want_cls:
            # the request form (same ids as the response).  The Spec's response reader must not read a
            # non-empty response out of it.
            if s in ("none", ""):
                cnt["request"] += 1
            else:
                cnt["mismatch"] += 1
                tally.mismatch(key, "implementation decodes the request form %s, spec reads a response" % type(msg).__name__,
                               "%s -> impl %s ; spec %s" % (hx(d), type(msg).__name__, s[:200]))
            continue
        if s == "none":
            cnt["spec_none"] += 1
            tally.note(key, "spec: not a message; implementation decodes (%d bytes left over)" % rem if rem
                       else "spec: not a message; implementation decodes, nothing left over",
                       "%s -> impl %s" % (hx(d), _safe_text(key, msg)[:160]))
            continue
        try:
            itext = specmap.STATUS[key](msg)
        except specmap.Unmappable as e:
            cnt["mismatch"] += 1
            tally.mismatch(key, "unmappable object: %s" % e, "%s -> %r" % (hx(d), msg))
            continue
        verdict, detail, used = specmap.compare(key, itext, s, raws_of(key, d))
        for u in used:
            tally.relax[(key, u)] = tally.relax.get((key, u), 0) + 1
        if verdict == "agree":
            cnt["agree"] += 1
            if used:
                cnt["relaxed"] += 1
        else:
            cnt["mismatch"] += 1
            tag = context(key, d, s)
            tally.mismatch(key, tag + " records / fields differ" if tag else detail,
                           "%s -> %s; impl %s ; spec %s" % (hx(d), detail, _focus(itext, detail), _focus(s, detail)))


def _safe_text(key, msg):
    try:
        return specmap.STATUS[key](msg)
    except Exception as e:  # noqa: BLE001
        return "<%s>" % e


def _focus(text, detail):
    """shorten a long text to the record/field the detail talks about"""
    if len(text) <= 240:
        return text
    f = detail.split(":")[0]
    m = re.search(r"(^|;)%s=[^;|]*" % re.escape(f), text)
    if m:
        return "..." + text[max(0, m.start() - 40): m.end() + 40] + "..."
    return text[:240] + "..."


# ------------------------------------------------------------------------------------------------ control objects
def tenths_range(lo, hi):
    return [t / 10.0 for t in range(lo, hi + 1)]


def control_cases(key):
    """yield (message object, in_domain: bool)"""
    gen, kind = key
    m = codec.find(gen, kind).m
    if key == (4, "2A"):
        settings = [(None, True), (m.GroupIncreaseDecrease.DECREASE, True), (m.GroupIncreaseDecrease.INCREASE, True)]
        settings += [(m.GroupDamperControl(p), 0 <= p <= 100) for p in (0, 1, 5, 50, 95, 100, 101, 127, 128, 255, 256, -1)]
        settings += [(m.GroupSetPointControl(t), 0 <= t <= 63) for t in (0, 1, 15, 16, 25, 32, 62, 63, 64, 100, 255, 256, -1)]
        for g, p, c, (s, ok) in itertools.product((0, 1, 7, 15, 16, 63, 64, 255, 256, -1), m.GroupPowerControl,
                                                  m.GroupControlMethod, settings):
            yield m.GroupControlMessage(group_number=g, power=p, control_method=c, setting=s), ok and 0 <= g <= 15
    elif key == (4, "2C"):
        sps = [(None, True), (m.AcIncreaseDecrease.DECREASE, True), (m.AcIncreaseDecrease.INCREASE, True)]
        sps += [(m.AcSetPointValue(t), 0 <= t <= 63) for t in (0, 1, 15, 16, 25, 32, 62, 63, 64, 100, 127, 128, 255, 256, -1)]
        for a, p, mo, f, (s, ok) in itertools.product((0, 1, 2, 3, 4, 63, 64, 255, -1), m.AcPowerControl, m.AcModeControl,
                                                      m.AcFanSpeedControl, sps):
            yield m.AcControlMessage(ac_number=a, power=p, mode=mo, fan_speed=f, set_point_control=s), ok and 0 <= a <= 3
    elif key == (5, "C020"):
        settings = [(None, True), (m.ZoneIncreaseDecrease.DECREASE, True), (m.ZoneIncreaseDecrease.INCREASE, True)]
        settings += [(m.ZoneDamperControl(p), 0 <= p <= 100) for p in (0, 1, 5, 50, 95, 100, 101, 127, 128, 255, 256, -1)]
        settings += [(m.ZoneSetPointControl(t), True) for t in tenths_range(100, 350)]
        settings += [(m.ZoneSetPointControl(t), False) for t in (0.0, 5.0, 9.9, 35.1, 35.5, 35.6, 40.0, 20.05, 20)]
        zones = (0, 1, 7, 15, 16, 63, 64, 255, 256, -1)
        for z, p, (s, ok) in itertools.product(zones, m.ZonePowerControl, settings):
            yield m.ZoneControlMessage([m.ZoneControlData(zone_number=z, zone_power=p, zone_setting=s)]), ok and 0 <= z <= 63
        # several records in one message, and none
        yield m.ZoneControlMessage([]), True
        rng = random.Random(SEED)
        for _ in range(400):
            recs, ok = [], True
            for _ in range(rng.choice([2, 2, 3, 4, 16])):
                s, sok = rng.choice(settings)
                z = rng.choice(zones[:6])
                recs.append(m.ZoneControlData(zone_number=z, zone_power=rng.choice(list(m.ZonePowerControl)), zone_setting=s))
                ok = ok and sok
            yield m.ZoneControlMessage(recs), ok
    elif key == (5, "C022"):
        few = [(None, True), (10.0, True), (20.0, True), (25.5, True), (35.0, True), (0.0, False), (5.0, False),
               (9.9, False), (35.1, False), (35.5, False), (35.6, False), (20, False)]
        acs = (0, 1, 3, 7, 15, 16, 255, -1)
        for a, p, mo, f, (s, ok) in itertools.product(acs, m.AcPowerControl, m.AcModeControl, m.AcFanSpeedControl, few):
            yield m.AcControlMessage([m.AcControlData(ac_number=a, power=p, mode=mo, fan_speed=f, set_point=s)]), ok and 0 <= a <= 15
        for t in tenths_range(100, 350):                        # every set-point of the documented range
            for p, mo, f in ((m.AcPowerControl.UNCHANGED, m.AcModeControl.UNCHANGED, m.AcFanSpeedControl.UNCHANGED),
                             (m.AcPowerControl.TURN_ON, m.AcModeControl.COOL, m.AcFanSpeedControl.INTELLIGENT_AUTO)):
                yield m.AcControlMessage([m.AcControlData(ac_number=1, power=p, mode=mo, fan_speed=f, set_point=t)]), True
        yield m.AcControlMessage([]), True
        rng = random.Random(SEED)
        for _ in range(400):
            recs, ok = [], True
            for _ in range(rng.choice([2, 2, 3, 4])):
                s, sok = rng.choice(few)
                recs.append(m.AcControlData(ac_number=rng.choice(acs[:4]), power=rng.choice(list(m.AcPowerControl)),
                                            mode=rng.choice(list(m.AcModeControl)),
                                            fan_speed=rng.choice(list(m.AcFanSpeedControl)), set_point=s))
                ok = ok and sok
            yield m.AcControlMessage(recs), ok


def split_spec_control(s):
    """'<text> changes=a,b|c [well_formed=x]' -> (text, [[a,b],[c]], well_formed or None)"""
    m = re.match(r"^(.*?) changes=(\S*)(?: well_formed=(\w+))?$", s)
    if not m:
        return s, None, None
    text, ch, wf = m.group(1), m.group(2), m.group(3)
    recs = specmap.parse(text)
    lists = [[a for a in part.split(",") if a] for part in ch.split("|")] if recs else []
    return text, lists, wf


def run_control(key, tally):
    real = Real(*key)
    objs = list(control_cases(key))
    enc = [real.encode(o) for o, _ in objs]
    idx = [i for i, (st, d) in enumerate(enc) if d is not None]
    spec = oracle(["spec %d %s %s" % (key[0], key[1], hx(enc[i][1])) for i in idx])
    spec_of = dict(zip(idx, spec))
    cnt = dict(agree=0, rejects=0, rejects_in=0, spec_none=0, mismatch=0, mismatch_in=0)
    n_in = sum(1 for _, ok in objs if ok)
    for i, ((obj, in_dom), (st, data)) in enumerate(zip(objs, enc)):
        dom = "in-domain object" if in_dom else "out-of-domain object"
        if data is None:
            cnt["rejects"] += 1
            if in_dom:
                cnt["rejects_in"] += 1
                tally.note(key, "encoder raises %s on an in-domain object" % st[4:], repr(obj))
            continue
        s = spec_of[i]
        if s == "bad-op":
            raise SystemExit("oracle does not know spec %d %s" % key)
        ex = "%r -> %s -> spec %s" % (obj, hx(data), s)
        if s == "none":
            cnt["spec_none"] += 1
            cnt["mismatch"] += 1
            cnt["mismatch_in"] += in_dom
            tally.mismatch(key, "[%s] the encoded bytes are not a control message for the Spec" % dom, ex)
            continue
        stext, schanges, wf = split_spec_control(s)
        try:
            itext, ichanges = specmap.CONTROL[key](obj)
        except (specmap.Unmappable, TypeError) as e:
            cnt["mismatch"] += 1
            cnt["mismatch_in"] += in_dom
            tally.mismatch(key, "[%s] unmappable object: %s" % (dom, e), ex)
            continue
        verdict, detail, _ = specmap.compare(key, itext, stext)
        if verdict == "agree" and schanges != ichanges:
            verdict, detail = "MISMATCH", "changes: object sets %s, spec reads %s" % (
                "|".join(",".join(c) for c in ichanges), "|".join(",".join(c) for c in schanges))
        if verdict == "agree" and wf == "false" and in_dom:
            verdict, detail = "MISMATCH", "well_formed=false for an in-domain object"
        if verdict == "agree":
            cnt["agree"] += 1
        else:
            cnt["mismatch"] += 1
            cnt["mismatch_in"] += in_dom
            tally.mismatch(key, "[%s] %s" % (dom, detail), ex)
    n = len(objs)
    tally.cases += n
    tally.out_of_domain += cnt["mismatch"] - cnt["mismatch_in"]
    print("%d/%-5s objects %6d (in-domain %5d)  agree %6d  encoder-rejects %5d (in-domain %d)  MISMATCH %5d (in-domain %d; "
          "spec-not-a-message %d)" % (key[0], key[1], n, n_in, cnt["agree"], cnt["rejects"], cnt["rejects_in"],
                                      cnt["mismatch"], cnt["mismatch_in"], cnt["spec_none"]), flush=True)


def main():
    want = [tuple(a.split("/")) for a in sys.argv[1:]]
    want = [(int(g), k) for g, k in want]
    tally = Tally()
    import pyairtouch
    print("spec_try: N=%d PAIRS=%s seed=%d oracle=%s implementation=%s" % (
        N, int(PAIRS), SEED, os.path.join(core.BIN_DIR, "oracle"), os.path.dirname(pyairtouch.__file__)))
    print("== status / ability / names / version / error payloads (C05) ==")
    for key in STATUS_KINDS:
        if want and key not in want:
            continue
        rng = random.Random(SEED * 1000003 + STATUS_KINDS.index(key))
        run_status(key, tally, rng)
    print("== control objects (C04) ==")
    for key in CONTROL_KINDS:
        if want and key not in want:
            continue
        run_control(key, tally)
    print("relaxations used:")
    for (key, name), c in sorted(tally.relax.items()):
        print("  %d/%-5s %-45s %7d cases" % (key[0], key[1], name, c))
    print("cases %d mismatches %d" % (tally.cases, tally.mismatches))
    print("  (of the mismatches, %d are control objects holding a value outside the documented range of the wire "
          "field - classes marked [out-of-domain object]; %d are on payloads / in-domain objects)"
          % (tally.out_of_domain, tally.mismatches - tally.out_of_domain))
    print("mismatch classes (%d):" % len(tally.classes))
    for c, (k, ex) in sorted(tally.classes.items(), key=lambda kv: (kv[0].split(" ")[0], -kv[1][0])):
        print("  [%6d] %s\n           e.g. %s" % (k, c, ex[:700]))
    print("observations that are not mismatches (%d):" % len(tally.notes))
    for c, (k, ex) in sorted(tally.notes.items()):
        print("  [%6d] %s\n           e.g. %s" % (k, c, ex[:400]))
    return 0


if __name__ == "__main__":
    sys.exit(main())
