"""Structured payload generators for the AirTouch 5 control/status sub-messages 0xC020 .. 0xC023.

Each generator returns (payload_bytes, [non_repeat_length, repeat_length, repeat_count]).  The payloads are
mostly valid records with the interesting field values over-represented (sentinel set-point 0xFF, temperature
codes around 0.0 degC / 150.0 degC / 0x07FF, every enum code including undefined ones, has_sensor on/off),
with the strides the decoders tolerate (known size, padded, larger), plus malformed ones: truncated buffers,
strides below the record size, announced non-repeat bytes, count 0 and the empty request forms.
"""

SET_POINTS = [0x00, 0x01, 0x64, 0x8C, 0xFE, 0xFF, 0x80]
# 500 -> 0.0 degC, 2000 -> 150.0 degC (largest valid), 2001 first invalid, 0x7FF sentinel
TEMPS = [0, 1, 499, 500, 501, 715, 1999, 2000, 2001, 2046, 2047]


def _pick(rng, special, n):
    return rng.choice(special) if rng.random() < 0.5 else rng.randrange(n)


def _finish(rng, recs, known, strides, allow_nr=True):
    """lay the records out with a stride and apply the occasional damage"""
    count = len(recs)
    r = rng.random()
    if r < 0.72:
        stride = rng.choice(strides)
    elif r < 0.82:
        stride = known + rng.choice([1, 3, 4, 7])
    elif r < 0.92:
        stride = max(0, known - rng.choice([1, 2, known]))      # too small (or 0)
    else:
        stride = rng.choice(strides)
    out = bytearray()
    for rec in recs:
        if stride >= len(rec):
            out += rec + bytes(rng.randrange(256) for _ in range(stride - len(rec)))
        else:
            out += rec[:stride] if rng.random() < 0.5 else rec
    nr = 0
    r = rng.random()
    if allow_nr and r < 0.08:
        nr = rng.choice([1, 2, 4])
        out = bytearray(rng.randrange(256) for _ in range(nr)) + out
    r = rng.random()
    if r < 0.10 and out:
        out = out[:-rng.randint(1, min(len(out), known + 2))]       # truncated
    elif r < 0.16:
        out += bytes(rng.randrange(256) for _ in range(rng.randint(1, 5)))   # trailing bytes
    elif r < 0.20:
        count += rng.choice([1, 2])                                  # announces more records than present
    elif r < 0.23 and count:
        count -= 1                                                   # announces fewer
    return bytes(out), [nr, stride, count]


def _count(rng):
    return rng.choice([0, 1, 1, 1, 2, 2, 3, 4, 8, 16])


def gen_c020(rng):
    recs = []
    for _ in range(_count(rng)):
        zone = _pick(rng, [0, 1, 15, 63, 255], 256)
        power = rng.randrange(8)
        setting = rng.randrange(8)
        low = rng.randrange(4) if rng.random() < 0.2 else 0        # bits 3..4 are unused
        value = _pick(rng, SET_POINTS + [100, 5], 256)
        pad = 0 if rng.random() < 0.7 else rng.randrange(256)
        recs.append(bytes([zone, setting << 5 | low << 3 | power, value, pad]))
    return _finish(rng, recs, 4, [4, 4, 4, 4, 6])


def gen_c021(rng):
    if rng.random() < 0.04:
        return b"", [rng.choice([0, 0, 2]), 0, 0]                    # the request form
    recs = []
    for _ in range(_count(rng)):
        zone = rng.randrange(64)
        power = rng.choice([0, 1, 3, 3, 1, 0, 2])
        b1 = power << 6 | zone
        b2 = rng.randrange(2) << 7 | _pick(rng, [0, 5, 100, 127], 128)
        sp = _pick(rng, SET_POINTS, 256)
        b4 = (0x80 if rng.random() < 0.7 else 0) | (rng.randrange(128) if rng.random() < 0.2 else 0)
        temp = _pick(rng, TEMPS, 2048) | ((rng.randrange(32) << 11) if rng.random() < 0.2 else 0)
        b7 = rng.randrange(4) | ((rng.randrange(64) << 2) if rng.random() < 0.2 else 0)
        pad = 0 if rng.random() < 0.7 else rng.randrange(256)
        recs.append(bytes([b1, b2, sp, b4, temp >> 8, temp & 0xFF, b7, pad]))
    return _finish(rng, recs, 8, [8, 8, 8, 8, 10, 12])


def gen_c022(rng):
    recs = []
    for _ in range(_count(rng)):
        b1 = rng.randrange(16) << 4 | rng.randrange(16)
        b2 = rng.randrange(16) << 4 | rng.randrange(16)
        ctl = rng.choice([0x00, 0x40, 0x00, 0x40, 0x00, 0x40, 0x00, 0x40, 0x80, 0x41, 0xC0, 0xFF, 0x01])
        sp = _pick(rng, SET_POINTS, 256)
        recs.append(bytes([b1, b2, ctl, sp]))
    return _finish(rng, recs, 4, [4, 4, 4, 4, 6])


def gen_c023(rng):
    if rng.random() < 0.04:
        return b"", [rng.choice([0, 0, 2]), 0, 0]                    # the request form
    recs = []
    for _ in range(_count(rng)):
        power = rng.choice([0, 1, 2, 3, 5, 5, 1, 0, 4, 15])
        mode = rng.choice([0, 1, 2, 3, 4, 8, 9, 9, 8, 4, 5, 15])
        fan = rng.choice([0, 1, 2, 3, 4, 5, 6, 9, 10, 11, 12, 13, 14, 14, 9, 7, 8, 15])
        b1 = power << 4 | rng.randrange(16)
        b2 = mode << 4 | fan
        sp = _pick(rng, SET_POINTS, 256)
        b4 = rng.randrange(16) | rng.choice([0xC0, 0xC0, 0x00, 0x30, 0xF0])
        temp = _pick(rng, TEMPS, 2048) | ((rng.randrange(32) << 11) if rng.random() < 0.2 else 0)
        err = _pick(rng, [0, 1, 0xFFFF, 0x0100], 65536)
        recs.append(bytes([b1, b2, sp, b4, temp >> 8, temp & 0xFF, err >> 8, err & 0xFF]))
    # the encoder's own layout is stride 10 (two padding bytes), older consoles send stride 8
    return _finish(rng, recs, 8, [8, 10, 10, 10, 8, 14])


GENERATORS = {
    (5, "C020"): gen_c020,
    (5, "C021"): gen_c021,
    (5, "C022"): gen_c022,
    (5, "C023"): gen_c023,
}
