"""Script generators for the socket harness (one PRNG, everything replayable from the script itself).

A script is a list of ops understood by `sockharness.Env.run_script`.  Times are ticks of 1/8 s.
Families follow the quantifiers of the properties:
  outage   (C01, C16): sends with mixed lifetimes and clock advances while the link is down, then a connection
  steady   (C01):      sends from several tasks while connected, long runs past the 256-value packet counter
  faults   (C02, C07): faults from the property's alphabet at random places, then the network heals
  close    (C15):      any of the above cut by close() at an arbitrary point, long idle, optional re-open
"""

POL = ["idem", "nonidem", "conn"]
BAD = ["bad_struct", "bad_notimpl", "bad_attr"]


class SidGen:
    def __init__(self):
        self.n = 0

    def next(self):
        self.n += 1
        return self.n


def outage(rng, sids=None, max_sends=14):
    sids = sids or SidGen()
    s = [("net", "refuse"), ("open",), ("adv", rng.choice([0, 1, 4, 9]))]
    n = rng.randint(1, max_sends)
    for _ in range(n):
        s.append(("send", sids.next(), "ok", rng.choice(POL)))
        r = rng.random()
        if r < 0.35:
            s.append(("adv", rng.choice([1, 2, 7, 8, 9, 40, 120, 239, 240, 241])))
        elif r < 0.5:
            s.append(("turn", rng.randint(1, 3)))
    s.append(("net", "accept"))
    s.append(("adv", rng.choice([17, 33, 64])))
    s.append(("turn", 3))
    return s


def outage_exact(n_sends, policy_list, gaps, wait):
    """deterministic member of the outage family (used for the exhaustive small cases)"""
    s = [("net", "refuse"), ("open",), ("adv", 1)]
    for i in range(n_sends):
        s.append(("send", i + 1, "ok", policy_list[i % len(policy_list)]))
        if gaps[i % len(gaps)]:
            s.append(("adv", gaps[i % len(gaps)]))
    s += [("net", "accept"), ("adv", wait), ("turn", 3)]
    return s


def steady(rng, n=None, sids=None):
    sids = sids or SidGen()
    s = [("net", "accept"), ("lat", rng.choice([0, 1, 3])), ("open",), ("adv", 8)]
    n = n or rng.randint(3, 40)
    for _ in range(n):
        s.append(("send", sids.next(), "ok", rng.choice(POL)))
        r = rng.random()
        if r < 0.3:
            s.append(("turn", rng.randint(1, 3)))
        elif r < 0.4:
            s.append(("adv", rng.choice([1, 2, 8])))
    s.append(("adv", 16))
    return s


def _fault_op(rng, sids):
    r = rng.random()
    if r < 0.10:
        return [("net", rng.choice(["refuse", "accept"]))]
    if r < 0.16:
        return [("lat", rng.choice([0, 1, 2, 16, 17]))]
    if r < 0.26:
        return [("peer", rng.choice(["eof", "reset", "reset", "timeout", "unreach"]))]
    if r < 0.36:
        return [("peer", rng.choice(["garbage", "badcrc", "trunc", "badtext", "badenum", "short"]))]
    if r < 0.42:
        return [("peer", "status")]
    if r < 0.52:
        return [("failw", 1), ("send", sids.next(), "ok", rng.choice(POL))]
    if r < 0.58:
        return [("block", 1), ("send", sids.next(), "ok", rng.choice(POL)), ("turn", 2), ("block", rng.choice([0, 0, 1]))]
    if r < 0.68:
        return [("send", sids.next(), rng.choice(BAD), rng.choice(POL))]
    if r < 0.80:
        return [("send", sids.next(), "ok", rng.choice(POL))]
    if r < 0.84:
        return [("subraise", rng.choice(["conn", "msg"]), 1)]
    if r < 0.86:
        # an application whose connection callback takes a few loop passes; typically while a flush is held up and the link dies,
        # so that the read loop and the blocked sender both notice the loss
        return [("subslow", rng.choice([1, 2, 4, 8])), ("block", 1), ("send", sids.next(), "ok", rng.choice(POL)), ("turn", rng.randint(0, 3)),
                ("peer", rng.choice(["reset", "timeout", "eof"]))]
    if r < 0.90:
        return [("reset",)]
    if r < 0.93:
        return [("turn", rng.randint(1, 4))]
    if r < 0.96:
        return [("adv", rng.choice([1, 2, 8, 15, 16, 17, 40, 240]))]
    # like the API objects: the connection subscriber sends from inside the "connected" notification of the NEXT
    # connection, whose first write may fail at once (the peer is already gone); then something forces a reconnect
    ops = [("subsend", sids.next(), rng.choice(["ok", "ok"] + BAD), rng.choice(POL))]
    if rng.random() < 0.6:
        ops.append(("failfirst", 1))
    ops.append(rng.choice([("reset",), ("peer", "eof"), ("peer", "reset"), ("peer", "badcrc")]))
    if rng.random() < 0.5:
        ops += [("turn", rng.randint(1, 6)), ("failfirst", 0)]
    return ops


def faults(rng, depth=None, sids=None, heal=True):
    sids = sids or SidGen()
    s = [("net", rng.choice(["accept", "accept", "refuse"])), ("lat", rng.choice([0, 0, 1, 2]))]
    if rng.random() < 0.15:
        s.append(("subsend", sids.next(), "ok", rng.choice(POL)))
        if rng.random() < 0.6:
            s.append(("failfirst", 1))
    elif rng.random() < 0.06:
        s.append(("blockfirst", 1))                 # a link congested from the first byte
    s += [("open",), ("adv", rng.choice([0, 1, 8, 17]))]
    if s[-3][0] == "failfirst" and rng.random() < 0.7:
        s.append(("failfirst", 0))
    if s[-3][0] == "blockfirst":
        s += [("send", sids.next(), "ok", rng.choice(POL)), ("adv", rng.choice([1, 9, 17])), ("blockfirst", 0), ("block", 0)]
    depth = depth or rng.randint(1, 6)
    for _ in range(depth):
        s += _fault_op(rng, sids)
        if rng.random() < 0.5:
            s.append(("adv", rng.choice([0, 1, 2, 8, 15, 16, 17, 24])))
        else:
            s.append(("turn", rng.randint(0, 3)))
    if heal:
        s.append(("heal",))
    return s


def close_cut(rng, sids=None):
    sids = sids or SidGen()
    base = rng.choice([outage, steady, faults])
    if base is faults:
        s = faults(rng, sids=sids, heal=False)
    else:
        s = base(rng, sids=sids)
    cut = rng.randint(2, len(s))
    s = s[:cut]
    s.append(("turn", rng.randint(0, 3)))
    s.append(("close",))
    if rng.random() < 0.5:
        s.append(("turn", rng.randint(1, 4)))
        s.append(("send", sids.next(), "ok", rng.choice(POL)))
    s.append(("net", "accept"))
    s.append(("adv", 8000))          # 1000 s idle
    r = rng.random()
    if r < 0.25:
        s.append(("send", sids.next(), "ok", "idem"))
        s.append(("adv", 40))
    elif r < 0.65:
        # a later open works as on a fresh object: connected again, receiving and transmitting
        s.append(("open",))
        s.append(("heal",))
        if rng.random() < 0.6:
            # ... and recovers from the new session's first fault as a fresh object does (nothing of the old session - a retry that was
            # pending, a reset that was under way when close() came - may linger in the new one)
            s.append(("adv", rng.choice([1, 8, 40])))
            s.append(rng.choice([("peer", "reset"), ("peer", "eof"), ("peer", "badcrc"), ("reset",)]))
            s.append(("adv", rng.choice([4, 24])))
            s.append(("heal",))
    return s
