"""Runs the real HeartbeatManager on the virtual clock against a stub socket and a scripted console.

Scenario = (interval, timeout, inputs) with inputs in time order:
  ("conn", up, t) ("start", t) ("stop", t) ("resp", t) ("finish", t); reset_connection() of the stub takes
  `reset_ticks` ticks.  The run is recorded as Spec.Heartbeat events (start/conn/beat/resp/reset/resetDone/stop).

Refused heartbeats (the socket's send buffer is full): the marks ("refuse", t) and ("refusedrop", t) may stand anywhere
in `inputs`; they are not timed inputs.  A `send()` issued at tick t is then refused: the stub records `refused t` and
raises the package's `QueueOverflowError`; for "refusedrop" the stub also reports the link down at that very instant,
after the refusal (`conn 0 t` is recorded by the stub).  `refused` is not a Spec.Heartbeat event: such records are
compared with the Lean model extended by `beatRefused` (`driver hbx`), they are not for the Spec monitor.  An
exception that escapes from `HeartbeatManager.stop()` is recorded as `raised <type> <t>` (there is none on a package in
which a refusal does not end the heartbeat loop).
"""
import asyncio

import vloop
from vloop import TICK, ticks


class StubSocket:
    def __init__(self, loop, rec, reset_ticks, refuse=(), drop=()):
        self.refuse = set(refuse)
        self.drop = set(drop)
        self.loop = loop
        self.rec = rec
        self.is_connected = False
        self.reset_ticks = reset_ticks
        self.subs = set()
        self.sent = []

    def subscribe_on_message_received(self, s):
        self.subs.add(s)

    def unsubcribe_on_message_received(self, s):
        self.subs.discard(s)

    async def send(self, message, retry_policy):
        now = ticks(self.loop.time())
        if now in self.refuse:
            import pyairtouch.comms.socket as S
            self.rec.append("refused %d" % now)
            if now in self.drop:
                self.is_connected = False
                self.rec.append("conn 0 %d" % now)
            raise S.QueueOverflowError
        self.sent.append((ticks(self.loop.time()), message, retry_policy))
        self.rec.append("beat %d" % ticks(self.loop.time()))

    async def reset_connection(self):
        self.rec.append("reset %d" % ticks(self.loop.time()))
        await asyncio.sleep(self.reset_ticks * TICK)
        self.rec.append("resetDone %d" % ticks(self.loop.time()))


def run_scenario(interval, timeout, inputs, reset_ticks=1, matching=True):
    import pyairtouch.comms.heartbeat as H
    loop = vloop.VLoop()
    loop.net = vloop.Net(loop)
    rec = []
    refuse = [i[1] for i in inputs if i[0] in ("refuse", "refusedrop")]
    drop = [i[1] for i in inputs if i[0] == "refusedrop"]
    inputs = [i for i in inputs if i[0] not in ("refuse", "refusedrop")]
    sock = StubSocket(loop, rec, reset_ticks, refuse, drop)
    MSG = object()
    RESP = object()
    cfg = H.HeartbeatConfig(message=MSG, response_match=(lambda m: m is RESP), interval=interval * TICK, timeout=timeout * TICK)
    mgr = H.HeartbeatManager(loop, sock, cfg)

    running = [False]        # the harness's own view of start()/stop() calls, not the manager's private state

    async def stop():
        try:
            await mgr.stop()
        except Exception as e:      # noqa: BLE001 - whatever escapes is part of the record
            rec.append("raised %s %d" % (type(e).__name__, ticks(loop.time())))

    async def main():
        for inp in inputs:
            t = inp[-1]
            dt = t * TICK - loop.time()
            if dt > 0:
                await asyncio.sleep(dt)
            k = inp[0]
            if k == "conn":
                sock.is_connected = bool(inp[1])
                rec.append("conn %d %d" % (1 if inp[1] else 0, t))
            elif k == "start":
                started = running[0]
                await mgr.start()
                running[0] = True
                if not started:
                    rec.append("start %d" % t)
                    await asyncio.sleep(0)      # both loops take their first step
                    await asyncio.sleep(0)
            elif k == "stop":
                started = running[0]
                await stop()
                running[0] = False
                if started:
                    rec.append("stop %d" % t)
            elif k == "resp":
                if sock.subs:
                    rec.append("resp %d" % t)
                    for s in list(sock.subs):
                        await s(None, RESP)
                    await asyncio.sleep(0)
            elif k == "other":
                for s in list(sock.subs):
                    await s(None, object())
            elif k == "finish":
                await asyncio.sleep(0)
                await asyncio.sleep(0)
        await stop()

    asyncio.set_event_loop(loop)
    try:
        loop.run_until_complete(main())
    finally:
        asyncio.set_event_loop(None)
        loop.close()
    return rec
