"""Scripted consoles for the initialisation / refresh checks (C09, C14): installations with arbitrary zone-to-AC
partitions, the six discovery answers built byte by byte from the vendor layouts (never with the package's encoders),
frames that a console may interleave (unsolicited, duplicate, unknown, foreign-addressed), a classifier of the
requests the client transmits (by the bytes the real send path writes for them) and a parser of the `VIEW` line.

Nothing here is derived from `pyairtouch/at4/api.py` / `at5/api.py`.
"""
import warnings

import apiharness

STEPS = ["version", "names", "ability", "ac_status", "timer", "zone_status"]
NAMES = ["Living", "Bed 1", "Kitchen", "Study", "Kids", "Zone", "a", "Bath", "Office", "Hall", "Attic", "Gym"]
AC_NAMES = ["UNIT", "Main", "Upstairs AC unit", "AC", "Daikin"]


def hx(b):
    return bytes(b).hex() or "-"


def msg(mid, payload, to=None):
    return "msg %02x %s" % (mid, hx(payload)) + ("" if to is None else " %02x" % to)


def cs5(sub, rl, recs, to=None):
    body = b"".join(bytes(r) for r in recs)
    return msg(0xC0, bytes([sub, 0, 0, 0, rl >> 8, rl & 255, len(recs) >> 8, len(recs) & 255]) + body, to)


# ---------------------------------------------------------------------------------------------- installations
class Inst:
    """gen; zones: {number: name}; acs: [dict(id, name, zones=[numbers], start, count)] in the order the console lists them;
    fmt (AT4): 'new' = records of following length 24 with the group bitmap, 'old' = following length 22, no bitmap"""

    def __init__(self, gen, zones, acs, fmt="new"):
        self.gen, self.zones, self.acs, self.fmt = gen, zones, acs, fmt

    def describe(self):
        return {"gen": self.gen, "fmt": self.fmt, "zones": {str(k): v for k, v in self.zones.items()},
                "acs": [dict(a) for a in self.acs]}

    @staticmethod
    def from_json(d):
        return Inst(d["gen"], {int(k): v for k, v in d["zones"].items()}, [dict(a) for a in d["acs"]], d.get("fmt", "new"))

    def kind(self):
        n = len(self.zones)
        if self.gen == 5:
            return "5:%s" % ("zero-zones" if n == 0 else "ranges")
        if self.fmt == "new":
            return "4:bitmap"
        if self.fmt == "mixed":
            return "4:mixed-records"
        return "4:old-single-ac" if len(self.acs) == 1 else "4:old-ranges"

    def expected(self):
        """what the property says must be exposed: {ac id: (name, {zone id: name})}"""
        return {a["id"]: (a["name"], {z: self.zones[z] for z in a["zones"]}) for a in self.acs}


def random_install(rng, gen, n_acs=None, n_zones=None, fmt=None):
    """a *consistent* installation: every named zone belongs to exactly one AC and every zone an AC refers to has a name"""
    n_acs = rng.randint(1, 4) if n_acs is None else n_acs
    if n_zones is None:
        n_zones = rng.choice([1, 1, 2, 3, 4, 5, 6, 8, 11, 15, 16] + ([0, 0] if gen == 5 else []))
    ids = sorted(rng.sample(range(4 if gen == 4 else rng.choice([4, 4, 8])), n_acs))
    if rng.random() < 0.25:
        rng.shuffle(ids)
    if gen == 4 and fmt is None:
        fmt = rng.choice(["new", "new", "old"])
        if n_acs >= 2 and rng.random() < 0.2:
            fmt = "mixed"        # one ability message whose records differ in layout: some units report the group bitmap, others only start / count
    contiguous = gen == 5 or fmt in ("old", "mixed")
    if contiguous:
        off = 0 if gen == 5 or rng.random() < 0.7 else rng.randint(0, 16 - n_zones)      # AT5: "zone index start from 0"
        numbers = [off + i for i in range(n_zones)]
        cuts = sorted(rng.randint(0, n_zones) for _ in range(n_acs - 1))
        bounds = [0] + cuts + [n_zones]
        blocks = [numbers[bounds[i]:bounds[i + 1]] for i in range(n_acs)]
        if rng.random() < 0.3:
            rng.shuffle(blocks)
    else:
        numbers = sorted(rng.sample(range(16), n_zones)) if rng.random() < 0.4 else list(range(n_zones))
        blocks = [[] for _ in range(n_acs)]
        for z in numbers:
            blocks[rng.randrange(n_acs)].append(z)
    zones = {z: (rng.choice(NAMES)[:6] + (str(z) if rng.random() < 0.5 else ""))[:8] for z in numbers}
    if gen == 5 and rng.random() < 0.2:
        # AirTouch 5 names are length-prefixed (up to 255 bytes): a household that types descriptive names makes the zone-names answer
        # longer than 256 bytes once there are a dozen zones
        stem = rng.choice(["Upstairs master bedroom ", "Ground floor living room ", "Küche und Esszimmer ", "\ufeffNorth wing guest suite ", "x" * 40 + " "])
        zones = {z: stem + str(z) for z in numbers}
    for z in numbers:
        # legal on the wire and seen on real consoles: a zone whose name was never set (blank), or one character
        r = rng.random()
        if r < 0.06:
            zones[z] = ""
        elif r < 0.10:
            zones[z] = rng.choice(["1", " ", "Z"])
    acs = []
    for i, b in zip(ids, blocks):
        start, count = (min(b) if b else (rng.choice(numbers) if numbers and rng.random() < 0.5 else 0)), len(b)
        if gen == 4 and fmt == "new":
            k = rng.random()
            if k < 0.35:
                start, count = 0, 0
            elif k < 0.7:
                start, count = rng.randint(0, 15), rng.randint(0, 16)       # not meaningful next to a bitmap
        if gen == 4 and fmt == "old" and n_acs == 1 and rng.random() < 0.6:
            start, count = rng.randint(0, 15), rng.randint(0, 16)           # "If one AC only, ignore these two bytes"
        acs.append(dict(id=i, name=rng.choice(AC_NAMES), zones=sorted(b), start=start, count=count,
                        modes=0x1F, fans=0x7F if gen == 4 else 0xFF, lo=rng.randint(14, 18), hi=rng.randint(28, 32)))
    if fmt == "mixed":
        flags = [rng.random() < 0.5 for _ in acs]
        flags[0], flags[-1] = True, False          # a record with the bitmap comes before one without
        for a, f in zip(acs, flags):
            a["bitmap"] = f
    return Inst(gen, zones, acs, fmt or "new")


# ---------------------------------------------------------------------------------------------- the six answers
def m_version(inst, text=b"1.2.3", update=0, to=None):
    return msg(0x1F, bytes([0xFF, 0x30, update, len(text)]) + text, to)


def m_names(inst, to=None):
    body = b""
    order = sorted(inst.zones)
    if len(order) >= 2 and (sum(order) + len(inst.acs)) % 3 == 0:
        order = order[1:] + order[:1] if len(order) % 2 else order[::-1]      # every entry carries its number: the order is the console's business
    for z in order:
        n = inst.zones[z].encode()
        if inst.gen == 4:
            body += bytes([z]) + n[:8].ljust(8, b"\0")
        else:
            body += bytes([z, len(n)]) + n
    if inst.gen == 5 and not inst.zones:
        # AirTouch 5 without zones: the console echoes the request (an empty 0xFF 0x13 addressed to the client)
        return msg(0x1F, bytes([0xFF, 0x13]), 0xB0)
    return msg(0x1F, bytes([0xFF, 0x12 if inst.gen == 4 else 0x13]) + body, to)


def m_ability(inst, to=None):
    body = b""
    for a in inst.acs:
        name = a["name"].encode()[:16].ljust(16, b"\0")
        if inst.gen == 4:
            rec = name + bytes([a["start"], a["count"], a["modes"], a["fans"], a["lo"], a["hi"]])
            if inst.fmt == "new" or (inst.fmt == "mixed" and a.get("bitmap")):
                bitmap = sum(1 << z for z in a["zones"])
                rec += bytes([bitmap & 0xFF, bitmap >> 8])
        else:
            rec = name + bytes([a["start"], a["count"], a["modes"], a["fans"], a["lo"], a["hi"], a["lo"], a["hi"]])
        body += bytes([a["id"], len(rec)]) + rec
    return msg(0x1F, bytes([0xFF, 0x11]) + body, to)


AC_POWERS = {4: [0, 1], 5: [0, 1, 2, 3, 5]}
AC_MODES = [0, 1, 2, 3, 4, 8, 9]
ZONE_POWERS = [0, 1, 3]


def random_ac_state(rng, inst):
    return {a["id"]: dict(power=rng.choice(AC_POWERS[inst.gen]), mode=rng.choice(AC_MODES), fan=rng.randint(0, 4),
                          setpoint=rng.randint(a["lo"], a["hi"]), temp=rng.choice([180, 215, 235, 301])) for a in inst.acs}


def random_zone_state(rng, inst):
    return {z: dict(power=rng.choice(ZONE_POWERS), ctrl=rng.randint(0, 1), damper=rng.choice([0, 5, 50, 95, 100, rng.randint(0, 100)]),
                    setpoint=rng.randint(16, 30), sensor=rng.randint(0, 1), temp=rng.choice([190, 225, 250]), turbo=rng.randint(0, 1))
            for z in inst.zones}


def m_ac_status(inst, st, to=None):
    if inst.gen == 4:
        body = b""
        for a in inst.acs:
            s = st[a["id"]]
            t = ((s["temp"] + 500) << 5) & 0xFFFF
            body += bytes([(s["power"] << 6) | a["id"], (s["mode"] << 4) | s["fan"], s["setpoint"] & 0x3F, 0, t >> 8, t & 0xFF, 0, 0])
        return msg(0x2D, body, to)
    recs = []
    for a in inst.acs:
        s = st[a["id"]]
        t = s["temp"] + 500
        recs.append([(s["power"] << 4) | a["id"], (s["mode"] << 4) | s["fan"], s["setpoint"] * 10 - 100, 0, t >> 8, t & 255, 0xFF, 0xFF, 0, 0])
    return cs5(0x23, 10, recs, to)


def m_timer(inst, to=None, on=None, off=None):
    def st(t):
        return [0x80, 0] if t is None else [t[0], t[1]]
    if inst.gen == 4:
        recs = {a["id"]: st(on) + st(off) + [0, 0, 0, 0] for a in inst.acs}
        return msg(0x37, b"".join(bytes(recs.get(i, [0x80, 0, 0x80, 0, 0, 0, 0, 0])) for i in range(4)), to)
    # (consoles with newer firmware send longer records - the layout's known prefix is read: a third of the installations do)
    pad = [0, 0] if (len(inst.zones) + len(inst.acs)) % 3 == 0 else []
    return cs5(0x33, 9 + len(pad), [[a["id"]] + st(on) + st(off) + [0, 0, 0, 0] + pad for a in inst.acs], to)


def m_zone_status(inst, st, to=None, unknown_first=None):
    """`unknown_first`: a zone / group number the client was never told about (enabled on the console later), reported FIRST"""
    order = sorted(inst.zones)
    st = dict(st)
    if unknown_first is not None and unknown_first not in inst.zones:
        st[unknown_first] = dict(power=1, ctrl=0, damper=40, turbo=False, setpoint=21, sensor=False, temp=0)
        order = [unknown_first] + order
    if inst.gen == 4:
        body = b""
        for z in order:
            s = st[z]
            t = (((s["temp"] + 500) << 5) & 0xFFE0) if s["sensor"] else 0xFF00
            body += bytes([(s["power"] << 6) | z, (s["ctrl"] << 7) | s["damper"], (0x40 if s["turbo"] else 0) | (s["setpoint"] & 0x3F),
                           0x80 if s["sensor"] else 0, t >> 8, t & 0xFF])
        return msg(0x2B, body, to)
    if not inst.zones:
        return msg(0xC0, bytes([0x21, 0, 0, 0, 0, 0, 0, 0]), 0xB0)       # zero zones: echo of the request, addressed to the client
    recs = []
    for z in order:
        s = st[z]
        t = (s["temp"] + 500) if s["sensor"] else 0xFFFF
        recs.append([(s["power"] << 6) | z, (s["ctrl"] << 7) | s["damper"], s["setpoint"] * 10 - 100, 0x80 if s["sensor"] else 0,
                     (t >> 8) & 255, t & 255, 0, 0])
    return cs5(0x21, 8, recs, to)


def answers(rng, inst, ac_state=None, zone_state=None):
    ac_state = ac_state or random_ac_state(rng, inst)
    zone_state = zone_state or random_zone_state(rng, inst)
    return [m_version(inst), m_names(inst), m_ability(inst), m_ac_status(inst, ac_state), m_timer(inst), m_zone_status(inst, zone_state)]


def request_echo(gen, step, to):
    """the client's own request for `step` as another party on the bus would see it (never addressed to 0xB0 by callers)"""
    if step == 0:
        return msg(0x1F, [0xFF, 0x30], to)
    if step == 1:
        return msg(0x1F, [0xFF, 0x12 if gen == 4 else 0x13], to)
    if step == 2:
        return msg(0x1F, [0xFF, 0x11], to)
    if gen == 4:
        return msg([0x2D, 0x37, 0x2B][step - 3], b"", to)
    return msg(0xC0, [[0x23, 0x33, 0x21][step - 3], 0, 0, 0, 0, 0, 0, 0], to)


EXTRA_KINDS = ["unknown-id", "unknown-sub", "undecodable", "duplicate", "unsolicited-status", "unsolicited-later-answer", "error-info",
               "control-echo", "foreign-frame", "foreign-request-echo"]


def extra(rng, inst, step, done, kind=None):
    """one frame a console may interleave while the client waits for the answer of `step` (0..5, or 6 = after the handshake);
    `done` = the answers already delivered (for duplicates).  Never a frame that is itself an answer to `step`."""
    gen = inst.gen
    kind = kind or rng.choice(EXTRA_KINDS)
    foreign = rng.choice([0x80, 0x90, 0x00, 0xB1, 0xFF])
    full = answers(rng, inst)
    others = [j for j in range(6) if j != step]
    if gen == 5 and not inst.zones:
        others = [j for j in others if j not in (1, 5)]         # the echoes addressed to the client are answers, keep them out
    if kind == "duplicate":
        if not done:
            kind = "unknown-id"
        else:
            return kind, rng.choice(done)
    if kind == "unknown-id":
        mid = rng.choice([0x45, 0x00, 0xFE, 0x2E, 0x99] + ([0x2B, 0x2D] if gen == 5 else [0xC0]))
        return kind, msg(mid, [rng.randint(0, 255) for _ in range(rng.randint(0, 9))])
    if kind == "unknown-sub":
        if gen == 5 and rng.random() < 0.5:
            n = rng.randint(0, 2)
            return kind, cs5(rng.choice([0x24, 0x00, 0x7F]), 2, [[rng.randint(0, 255)] * 2 for _ in range(n)])
        return kind, msg(0x1F, [0xFF, rng.choice([0x31, 0x00, 0x14, 0x2F])] + [rng.randint(0, 255) for _ in range(rng.randint(0, 5))])
    if kind == "undecodable":
        if gen == 5:
            return kind, rng.choice([msg(0x1F, [0xFF][:rng.randint(0, 1)]), msg(0xC0, [0x21, 0, 0, 0][:rng.randint(0, 4)]),
                                     msg(0x1F, [0xFF, 0x30, 0, 3, 0xFF, 0xFE, 0xFD])])
        return kind, rng.choice([msg(0x1F, [0xFF][:rng.randint(0, 1)]), msg(0x1F, [0xFF, 0x30, 0, 3, 0xFF, 0xFE, 0xFD]),
                                 msg(0x1F, [0xFF, 0x10])])
    if kind == "unsolicited-status":
        j = rng.choice([j for j in (3, 4, 5) if j in others] or [0])
        return kind, full[j]
    if kind == "unsolicited-later-answer":
        later = [j for j in others if j > step] or others
        return kind, full[rng.choice(later)]
    if kind == "error-info":
        ac = rng.choice([a["id"] for a in inst.acs] + [9])
        text = rng.choice([b"", b"ER: FFFE", b"E5"])
        return kind, msg(0x1F, bytes([0xFF, 0x10, ac, len(text)]) + text)
    if kind == "control-echo":
        if gen == 4:
            return kind, rng.choice([msg(0x2A, [0, 0x80, 50, 0]), msg(0x2C, [0x80, 0x0F, 0x3F, 0])])
        return kind, rng.choice([cs5(0x22, 4, [[0x20, 0x00, 0x00, 0xFF]]), cs5(0x20, 4, [[0, 0x80, 50, 0]])])
    if kind == "foreign-frame":
        j = rng.choice(others)
        line = full[j]
        w = line.split()
        return kind, " ".join(w[:3] + ["%02x" % foreign])
    if kind == "foreign-request-echo":
        return kind, request_echo(gen, rng.randint(0, 5) if rng.random() < 0.5 or step > 5 else step, foreign)
    raise ValueError(kind)


# ---------------------------------------------------------------------------------------------- running, classifying requests
def frame_bytes(api, message):
    """(message id, payload bytes) the real send path writes for `message` (encoder of the registry, as the socket does)"""
    reg = api.reg
    enc = reg.get_encoder(message.message_id)
    hdr = reg.header_factory.create_from_message(message, enc.size(message))
    return hdr.message_id, bytes(enc.encode(hdr, message))


def classify(gen, mid, payload):
    """which discovery request a transmitted frame is, by its bytes (vendor documents: a request is the message with no data)"""
    if mid == 0x1F:
        table = {bytes([0xFF, 0x30]): "version", bytes([0xFF, 0x12 if gen == 4 else 0x13]): "names", bytes([0xFF, 0x11]): "ability"}
        return table.get(payload, "other")
    if gen == 4:
        if payload == b"" and mid in (0x2D, 0x2B):
            return {0x2D: "ac_status", 0x2B: "zone_status"}[mid]
        if mid == 0x37:
            return "timer"        # not in the vendor document: any frame of the timer type sent by the client counts as the request
        return "other"
    if mid == 0xC0 and len(payload) == 8 and payload[1:] == bytes(7):
        return {0x23: "ac_status", 0x21: "zone_status", 0x33: "timer"}.get(payload[0], "other")
    return "other"


_KIND_CACHE = {}


def run(gen, ops):
    """-> (per op: output lines, per op: [(kind, position of the SEND line in the op's output)], how init() ended)
    init end: None (not started) | 'pending' (never returned: a hang) | 'returned' | 'raised <Exception>'"""
    api = apiharness.Api(gen)
    with warnings.catch_warnings():
        warnings.simplefilter("ignore")
        outs = api.run(ops)
    kinds = []
    for lines, sent in zip(outs, api.op_sent):
        row, j = [], 0
        for pos, ln in enumerate(lines):
            if ln.startswith("SEND "):
                key = (gen, ln.split(" ", 2)[2])
                if key not in _KIND_CACHE:
                    try:
                        _KIND_CACHE[key] = classify(gen, *frame_bytes(api, sent[j][0]))
                    except Exception:  # noqa: BLE001  (a message the registry cannot encode never reaches the wire)
                        _KIND_CACHE[key] = "unencodable"
                row.append((_KIND_CACHE[key], pos))
                j += 1
        kinds.append(row)
    t = api.init_task
    if t is None:
        end = None
    elif t.cancelled() or not t.done():
        end = "pending"
    elif t.exception() is not None:
        end = "raised " + type(t.exception()).__name__
    else:
        end = "returned"
    return outs, kinds, end


# ---------------------------------------------------------------------------------------------- VIEW parser
def parse_view(text):
    """'VIEW AirTouch(...)' -> nested dicts / lists / atoms (strings)"""
    s = text[5:] if text.startswith("VIEW ") else text
    pos = 0

    def value():
        nonlocal pos
        if s[pos] == "[":
            pos += 1
            items = []
            while s[pos] != "]":
                items.append(value())
                if s[pos] == ",":
                    pos += 1
            pos += 1
            return items
        start = pos
        while pos < len(s) and s[pos] not in "(),[]=":
            pos += 1
        word = s[start:pos]
        if pos < len(s) and s[pos] == "(":
            pos += 1
            d = {"_": word}
            while s[pos] != ")":
                k0 = pos
                while s[pos] != "=":
                    pos += 1
                key = s[k0:pos]
                pos += 1
                d[key] = value()
                if s[pos] == ",":
                    pos += 1
            pos += 1
            return d
        return word
    return value()


def text_of(canon_str):
    """'s<utf8 hex>' -> str"""
    return bytes.fromhex(canon_str[1:]).decode("utf-8", "replace")


def exposed(view):
    """{ac id: (name, {zone id: name})} and the list of duplicate ids, from a parsed VIEW"""
    out, dup = {}, []
    seen_z = set()
    for a in view["air_conditioners"]:
        i = int(a["ac_id"])
        if i in out:
            dup.append("ac %d" % i)
        zs = {}
        for z in a["zones"]:
            zi = int(z["zone_id"])
            if zi in seen_z:
                dup.append("zone %d" % zi)
            seen_z.add(zi)
            zs[zi] = text_of(z["name"])
        out[i] = (text_of(a["name"]), zs)
    return out, dup


def parse_spec(line):
    """oracle `spec` answer -> list of records (dict per ' | ' separated record)"""
    if line in ("none", "bad-op", "") or line.startswith("error"):
        return None
    return [dict(kv.split("=", 1) for kv in rec.split(";") if "=" in kv) for rec in line.split(" | ")]
