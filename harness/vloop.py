"""Virtual-clock asyncio loop and an in-memory network (TCP streams + UDP datagrams).

`VLoop` is a real `asyncio.SelectorEventLoop` whose clock only moves when nothing is ready: it
jumps to the next timer.  `create_connection` is served by `Net`, which hands real asyncio stream
protocols a `FakeTransport` modelled on `_SelectorSocketTransport` (close / fatal error /
connection_lost ordering, silent drop of writes after loss, flow control through pause_writing).
All times used by scripts are multiples of TICK so float clock arithmetic is exact.
"""
import asyncio
import heapq
import selectors

TICK = 0.125


def ticks(t):
    q = round(t / TICK)
    return q


class VLoop(asyncio.SelectorEventLoop):
    def __init__(self):
        super().__init__(selectors.SelectSelector())
        self._vt = 0.0
        self.net = None
        self.passes = 0
        self.max_passes = None        # guard against endless zero-time activity (a harness run must terminate)
        self.all_tasks_created = []
        self.unhandled = []
        self.set_exception_handler(self._on_unhandled)

    def _on_unhandled(self, loop, context):
        self.unhandled.append(context)

    def time(self):
        return self._vt

    def _run_once(self):
        self.passes += 1
        if self.max_passes is not None and self.passes > self.max_passes:
            self.max_passes = None
            raise RuntimeError("virtual-clock loop exceeded its pass budget at t=%s (endless zero-time activity?)" % self._vt)
        while self._scheduled and self._scheduled[0]._cancelled:
            h = heapq.heappop(self._scheduled)
            h._scheduled = False
        if not self._ready and self._scheduled:
            w = self._scheduled[0]._when
            if w > self._vt:
                self._vt = w
        if not self._ready and not self._scheduled and not self._stopping:
            # nothing is runnable and no timer is pending: on a virtual clock (no real I/O) nothing will ever happen again - the
            # coroutine being run waits for something that cannot come.  Fail the run instead of blocking in select() for ever.
            raise RuntimeError("virtual-clock loop is idle for ever at t=%s: the awaited operation never completes (deadlock)" % self._vt)
        super()._run_once()

    async def create_connection(self, protocol_factory, host=None, port=None, **kw):
        return await self.net.connect(self, protocol_factory, host, port)

    async def create_datagram_endpoint(self, protocol_factory, local_addr=None, remote_addr=None, **kw):
        return self.net.datagram_endpoint(self, protocol_factory, local_addr, remote_addr, kw)

    def pending_timers(self):
        return [h for h in self._scheduled if not h._cancelled]


# what a failing send() can report: the peer is gone (EPIPE / ECONNRESET), or the path is (half-open connection timing out,
# route lost) - the latter are OSErrors outside the ConnectionError family
WRITE_ERRORS = [lambda: BrokenPipeError(32, "Broken pipe"), lambda: ConnectionResetError(104, "Connection reset by peer"),
                lambda: TimeoutError(110, "Connection timed out"), lambda: OSError(113, "No route to host")]


class FakeTransport(asyncio.Transport):
    """One TCP connection as the client sees it."""

    def __init__(self, loop, proto, net, cid):
        super().__init__()
        self.loop = loop
        self.proto = proto
        self.net = net
        self.cid = cid
        self.closing = False          # close() called or fatal error
        self.conn_lost = 0            # like _SelectorTransport._conn_lost
        self.lost_called = False      # protocol.connection_lost has run
        self.client_closed = False
        self.fail_writes = False      # next write raises inside the transport (fatal error)
        self.fail_kind = 0            # which OSError the kernel reports for it (see WRITE_ERRORS)
        self.paused = False
        self.nwrites = 0
        self.eof_sent = False

    # -- client side -------------------------------------------------------------------------
    def write(self, data):
        if not data:
            return
        if self.conn_lost:
            self.conn_lost += 1
            self.net.ev("dropped_write", self.cid, bytes(data))
            return
        self.nwrites += 1
        if self.fail_writes:
            self.net.ev("write_fault", self.cid, bytes(data))
            self._force_close(WRITE_ERRORS[self.fail_kind % len(WRITE_ERRORS)]())
            return
        self.written_all = getattr(self, "written_all", b"") + bytes(data)      # (for a peer that echoes what it received)
        self.net.ev("write", self.cid, bytes(data))
        if self.paused and not isinstance(data, bytes):
            # a real transport that cannot send right away keeps the OBJECT it was given (asyncio 3.12 does not copy): what finally
            # leaves is that object's content at that later time
            if not hasattr(self, "held"):
                self.held = []
            self.held.append((data, bytes(data)))

    def check_held(self):
        for obj, snap in getattr(self, "held", []):
            if bytes(obj) != snap:
                self.net.ev("mutated", self.cid, snap, bytes(obj))
        self.held = []

    def _force_close(self, exc):
        if self.conn_lost:
            return
        self.closing = True
        self.conn_lost += 1
        self.net.ev("lost", self.cid, type(exc).__name__ if exc else "None")
        self.loop.call_soon(self._call_connection_lost, exc)

    def _call_connection_lost(self, exc):
        self.lost_called = True
        self.net.ev("lost_ran", self.cid)
        self.proto.connection_lost(exc)

    def close(self):
        if self.closing:
            return
        self.closing = True
        self.client_closed = True
        self.conn_lost += 1
        self.net.ev("client_close", self.cid)
        if getattr(self, "reset_on_close", False) and self.paused:
            # a stalled link whose far end answers the client's close with a reset (unsent data is still buffered): the connection ends
            # with an error, which the tasks waiting in drain() get to see
            self.loop.call_soon(self._call_connection_lost, ConnectionResetError(104, "Connection reset by peer"))
            return
        self.loop.call_soon(self._call_connection_lost, None)

    def abort(self):
        self._force_close(None)

    def is_closing(self):
        return self.closing

    def get_extra_info(self, name, default=None):
        return default

    def get_write_buffer_size(self):
        return 0

    def can_write_eof(self):
        return False

    def pause_reading(self):
        pass

    def resume_reading(self):
        pass

    def is_reading(self):
        return True

    # -- peer / environment side -------------------------------------------------------------
    def is_open(self):
        return not self.closing

    def peer_send(self, data):
        if not self.conn_lost and not self.eof_sent:
            self.proto.data_received(data)

    def peer_eof(self):
        if not self.conn_lost and not self.eof_sent:
            self.eof_sent = True
            self.net.ev("peer_eof", self.cid)
            keep = self.proto.eof_received()
            if not keep:
                # like _SelectorSocketTransport._read_ready__on_eof: close()
                self.closing = True
                self.conn_lost += 1
                self.net.ev("lost", self.cid, "eof")
                self.loop.call_soon(self._call_connection_lost, None)

    def peer_reset(self, kind=1):
        """a failed recv(): the transport is lost with the OSError the kernel reported (default ECONNRESET)"""
        if not self.conn_lost:
            self.net.ev("peer_reset", self.cid)
            self._force_close(WRITE_ERRORS[kind % len(WRITE_ERRORS)]())

    def block_writes(self):
        if not self.paused and not self.conn_lost:
            self.paused = True
            self.proto.pause_writing()

    def unblock_writes(self):
        if self.paused:
            self.check_held()
            self.paused = False
            if not self.lost_called:
                self.proto.resume_writing()


class Net:
    """Connection policy + event log. Events are tuples (kind, tick, *args)."""

    def __init__(self, loop):
        self.loop = loop
        self.events = []
        self.conns = []
        self.mode = "accept"     # accept | refuse
        self.latency = 0.0
        self.attempts = 0
        self.listeners = []
        self.udp = []

    def ev(self, kind, *args):
        e = (kind, ticks(self.loop.time())) + args
        self.events.append(e)
        for fn in self.listeners:
            fn(e)

    async def connect(self, loop, pf, host, port):
        self.attempts += 1
        self.ev("attempt")
        # a real connect always suspends at least once (name resolution, the TCP handshake)
        await asyncio.sleep(self.latency)
        mode = self.mode
        if mode == "refuse":
            self.ev("refused")
            # a connection attempt fails in many ways, all of them OSError: refused, no route, the resolver does not know the name (yet) or
            # asks to try again, a timeout, asyncio's summary of several addresses that failed. Which one is met rotates with the attempts
            # (the harnesses set `kind_offset` from a hash of the script, so every kind meets every family of scripts)
            import errno
            import socket as _socket
            k = (self.attempts - 1 + getattr(self, "kind_offset", 0)) % 6
            if k == 0:
                raise ConnectionRefusedError(errno.ECONNREFUSED, "refused")
            if k == 1:
                raise OSError(errno.EHOSTUNREACH, "No route to host")
            if k == 2:
                raise _socket.gaierror(_socket.EAI_NONAME, "Name or service not known")
            if k == 3:
                raise TimeoutError(errno.ETIMEDOUT, "Connection timed out")
            if k == 4:
                raise OSError("Multiple exceptions: [Errno 111] Connect call failed ('192.0.2.1', 9005), [Errno 113] Connect call failed ('192.0.2.2', 9005)")
            raise _socket.gaierror(_socket.EAI_AGAIN, "Temporary failure in name resolution")
        proto = pf()
        t = FakeTransport(loop, proto, self, len(self.conns))
        self.conns.append(t)
        self.ev("opened", t.cid)
        if getattr(self, "fail_first_write", False):
            # the next connection accepts but its first write hits a fatal socket error (peer already gone)
            t.fail_writes = True
            self.ev("envFailWrites", t.cid, 1)
            if getattr(self, "fail_first_once", False):
                self.fail_first_write = self.fail_first_once = False      # only the next ONE connection
        proto.connection_made(t)
        if getattr(self, "block_first", False):
            # a congested link from the first byte: the transport tells the protocol to pause writing at once
            t.block_writes()
            self.ev("envPause", t.cid, 1)
        return t, proto

    def open_conns(self):
        return [c for c in self.conns if not c.closing]

    # -- UDP ------------------------------------------------------------------------------------
    def datagram_endpoint(self, loop, pf, local_addr, remote_addr, kw):
        proto = pf()
        t = FakeDatagramTransport(loop, proto, self, len(self.udp), local_addr, remote_addr, kw)
        self.udp.append(t)
        proto.connection_made(t)
        return t, proto


class FakeDatagramTransport(asyncio.DatagramTransport):
    def __init__(self, loop, proto, net, uid, local_addr, remote_addr, kw):
        super().__init__()
        self.loop = loop
        self.proto = proto
        self.net = net
        self.uid = uid
        self.local_addr = local_addr
        self.remote_addr = remote_addr
        self.kw = kw
        self.closed = False
        self.sent = []

    def sendto(self, data, addr=None):
        if self.closed:
            return
        self.sent.append((self.loop.time(), bytes(data), addr))
        self.net.ev("udp_send", self.uid, bytes(data), addr)

    def close(self):
        if not self.closed:
            self.closed = True
            self.net.ev("udp_close", self.uid)
            self.loop.call_soon(self.proto.connection_lost, None)

    def abort(self):
        self.close()

    def is_closing(self):
        return self.closed

    def get_extra_info(self, name, default=None):
        if name == "socket":
            return _FakeSock()
        return default

    def deliver(self, data, addr):
        if not self.closed:
            self.proto.datagram_received(data, addr)


class _FakeSock:
    def setsockopt(self, *a):
        pass

    def getsockname(self):
        return ("0.0.0.0", 0)
