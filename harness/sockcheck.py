"""Shared machinery of the socket-level checks (C01, C02, C07, C15, C16 and the reception parts of
C06/C13/C17): run script families on the real socket, judge the observable traces with the Spec
monitors (oracle), validate every recorded step against the Lean model (driver), shrink failures."""
import asyncio
import json
import logging
import multiprocessing
import os
import random
import warnings

import sockgen
import sockharness
import sockobs

FAMILIES = {"outage": sockgen.outage, "steady": sockgen.steady, "faults": sockgen.faults, "close": sockgen.close_cut}


def _run_one(args):
    script, gen = args
    warnings.simplefilter("ignore")
    try:
        r = sockharness.run_script([tuple(op) for op in script], gen=gen)
    except (Exception, asyncio.CancelledError) as e:  # noqa: BLE001
        return {"error": "%s: %s" % (type(e).__name__, e)}
    bg = [e for st in r["steps"] for e in st["events"] if e[0] in ("bgException",)]
    # an exception other than the documented NotOpenError / QueueOverflowError out of send(), or any out of open / close / reset
    # (an unencodable message of the harness's own making may raise out of send(): the caller's error, not judged)
    bg += [e for st in r["steps"] for e in st["events"] if e[0] == "apiRaised" or (e[0] == "sendRaised" and e[-1] == "ok")]
    return {"obs": sockobs.observable(r), "steps": r["steps"], "census": r["census"], "delivered": r.get("delivered", []), "handled2": r.get("handled2", []),
            "unhandled": r.get("unhandled", []), "bg": bg}


_POOL = None


def pool():
    global _POOL
    if _POOL is None:
        _POOL = multiprocessing.get_context("fork").Pool(min(16, os.cpu_count() or 4))
    return _POOL


def run_scripts(scripts, gen=4, parallel=True):
    args = [(s, gen) for s in scripts]
    if parallel and len(scripts) > 40:
        return pool().map(_run_one, args, chunksize=8)
    return [_run_one(a) for a in args]


def gen_scripts(seed, plan):
    """plan: list of (family, count). One PRNG; returns [(family, script)]."""
    rng = random.Random(seed)
    out = []
    for fam, n in plan:
        f = FAMILIES[fam]
        for _ in range(n):
            out.append((fam, f(rng)))
    return out


def shrink(script, still_fails, budget=60):
    """Greedy deletion of ops while the same monitor still fails."""
    cur = list(script)
    changed = True
    while changed and budget > 0:
        changed = False
        for i in range(len(cur) - 1, -1, -1):
            if cur[i][0] == "open":
                continue
            cand = cur[:i] + cur[i + 1:]
            budget -= 1
            if budget <= 0:
                break
            if still_fails(cand):
                cur = cand
                changed = True
    return cur


def judge_family(ctx, prop_key, items, monitors, gen=4, applies=None, nontrivial=None):
    """items: [(family, script)]. Runs, judges with `monitors` (all must hold), records coverage and
    violations in ctx. `applies(family)` restricts a monitor set to families in its quantifier."""
    scripts = [s for _, s in items]
    results = run_scripts(scripts, gen=gen)
    good = [(f, s, r) for (f, s), r in zip(items, results) if "error" not in r]
    for (f, s), r in zip(items, results):
        if "error" in r:
            raise RuntimeError("socket harness failed on %r: %s" % (s, r["error"]))
    verdicts = sockobs.judge_many(ctx, [r["obs"] for _, _, r in good], monitors)
    failures = {}
    for (fam, script, r), v in zip(good, verdicts):
        ctx.case(json.dumps(script), nontrivial=(nontrivial(script, r) if nontrivial else True))
        ctx.count("family:" + fam)
        for ev in r["obs"]:
            ctx.count("ev:" + ev.split()[0])
        for m, ok in v.items():
            if not ok and (applies is None or applies(m, fam)):
                if m not in failures or len(script) < len(failures[m][0]):
                    failures[m] = (script, r["obs"])
    # an exception that escapes a background task (connect / read loop) or reaches the loop's exception handler
    for (fam, script, r) in good:
        if r.get("bg") or r.get("unhandled"):
            ctx.violation("%s:unhandled-exception" % prop_key,
                          "an exception escaped a task or a public call of the client on script %s: %s %s" % (json.dumps(script), r.get("bg"), r.get("unhandled")),
                          kind="history", monitor="unhandled", script=script, gen=gen, implementation_output=r["obs"],
                          spec_verdict="no exception may escape the receive / connect tasks; send() raises only the documented errors")
            break
    for m, (script, obs) in failures.items():
        def still(c, m=m):
            rr = _run_one((c, gen))
            if "error" in rr:
                return False
            return not sockobs.judge_many(ctx, [rr["obs"]], [m])[0][m]
        small = shrink(script, still)
        rr = _run_one((small, gen))
        ctx.violation("%s:%s" % (prop_key, m),
                      "monitor %s rejects the recorded behaviour of the real socket on script %s" % (m, json.dumps(small)),
                      kind="history", monitor=m, script=small, gen=gen, implementation_output=rr.get("obs"),
                      spec_verdict="%s = false" % m)
    if good:
        ctx.sample({"script": good[0][1], "observable": good[0][2]["obs"][:40]})
    return good


def replay(ctx, data):
    script = [tuple(op) for op in data["script"]]
    m = data["monitor"]
    rr = _run_one((script, data.get("gen", 4)))
    print("\n".join(rr["obs"]))
    ok = sockobs.judge_many(ctx, [rr["obs"]], [m])[0][m]
    print("monitor %s -> %s" % (m, ok))
    return 0 if ok else 1


def validate_against_model(ctx, good, label):
    """Replays every recorded run block by block against Sock.step (driver)."""
    if not ctx.driver_ok:
        return
    if any(b["name"].startswith("correspondence:socket-trace") for b in ctx.broken):
        # the model already fails to follow the code: further recordings add nothing (and a model that has lost track of the code can
        # take very long to say so on long recordings); the search judges the implementation with the Spec monitors alone
        return
    lines = []
    spans = []
    for fam, script, r in good:
        vl = sockobs.validation_lines(r)
        spans.append((len(lines), len(vl), script))
        lines += vl
    out = ctx.driver(lines)
    first_bad = None
    nsteps = 0
    for start, n, script in spans:
        verdict = out[start + n - 1]
        if verdict.startswith("validated"):
            ctx.traces_validated += 1
            try:
                nsteps += int(verdict.split("steps=")[1].split()[0])
            except Exception:  # noqa: BLE001
                pass
        else:
            if first_bad is None or len(script) < len(first_bad[0]):
                first_bad = (script, verdict)
    ctx.count("model_blocks_validated", nsteps)
    if first_bad is not None:
        ctx.tie_broken("correspondence:socket-trace(%s)" % label,
                       "the Lean socket model cannot follow a recording of the real socket: " + first_bad[1][:600],
                       script=first_bad[0])


def run_sock(ctx, prop_key, plan, monitors, applies=None, gens=(4,), nontrivial=None):
    for gen in gens:
        items = gen_scripts(ctx.seed * 7919 + gen, plan)
        good = judge_family(ctx, prop_key, items, monitors, gen=gen, applies=applies, nontrivial=nontrivial)
        validate_against_model(ctx, good, "AT%d" % gen)
