#!/venv/bin/python
"""api_try5.py [n] : run the AirTouch 5 API differential (real object vs Lean model) on n generated scripts.
Prints `scripts <n> broken <k>` and the first disagreements.  Set VERIF_LEAN_DIR to use a scratch copy's driver."""
import os
import random
import sys

HERE = os.path.dirname(os.path.abspath(__file__))
sys.path.insert(0, HERE)
sys.path.insert(0, os.environ.get("VERIF_REPO", "/repo"))
import core  # noqa: E402

if os.environ.get("VERIF_LEAN_DIR"):
    core.LEAN_DIR = os.environ["VERIF_LEAN_DIR"]
    core.BIN_DIR = os.path.join(core.LEAN_DIR, ".lake", "build", "bin")
import logging  # noqa: E402

import apicheck  # noqa: E402
import apigen5  # noqa: E402

logging.disable(logging.CRITICAL)


def main():
    n = int(sys.argv[1]) if len(sys.argv) > 1 else int(os.environ.get("N", "2000"))
    seed = int(os.environ.get("VERIF_SEED", "1"))
    ctx = core.Ctx("C10", "quick", seed)
    ctx.driver_ok = True
    rng = random.Random(seed)
    broken = []
    per = {}
    nops = 0
    outs = {}
    for i in range(n):
        name, ops = apigen5.gen_script(rng, i)
        per[name] = per.get(name, 0) + 1
        nops += len(ops)
        real, bad = apicheck.compare(ctx, 5, ops, label=name)
        for r in real:
            for line in r:
                k = line.split(" ", 1)[0] + (" " + line.split(" ")[1] if line.startswith(("RESULT", "SEND", "UNDECODABLE", "SUBSCRIBER-EXC")) else "")
                outs[k] = outs.get(k, 0) + 1
        if bad:
            broken.append((name, i, ops, bad))
    print("scripts %d broken %d ops %d" % (n, len(broken), nops))
    print("scenarios", per)
    print("outputs", dict(sorted(outs.items())))
    for name, i, ops, bad in broken[:int(os.environ.get("SHOW", "3"))]:
        print("BROKEN", name, "script", i, "op", bad["index"], repr(bad["op"]))
        print("  impl :", bad["implementation"])
        print("  model:", bad["model"])
        print("  script:", ops[:bad["index"] + 1])


if __name__ == "__main__":
    main()
