#!/venv/bin/python
"""frame_try.py [4] [5] : whole-frame differential, model (driver `parse` / `reframe` / `send` / `wfframe`)
against the real package (registries, wrappers, header codecs, CRC, `AirTouchSocket._read_one_message`,
`AirTouchSocket.send` / `send_with_header` / `_write`).

Byte strings fed to both sides:
  sent      frames written by the REAL send path (`socket.send(message)`: `get_encoder`, `size`,
            `header_factory.create_from_message`, header encoder, message encoder, CRC) for messages obtained
            by decoding generated payloads with the real leaf decoders, for every registered id
  raw       generated payloads (valid and malformed) wrapped in the 0x1F / 0xC0 sub-header and a frame
  unknown   unregistered type bytes / 0x1F sub-ids / 0xC0 sub-types with random payloads and lengths
  mutated   bit flips (with and without recomputed CRC), truncations, wrong length fields, wrong prefixes,
            AT5 outer-length mismatches, trailing bytes, two frames back to back
  random    random bytes, random bytes behind a valid prefix

For each byte string `b`:
  * `driver parse <gen> b`  ==  `_read_one_message` on a `StreamReader` fed with `b` and EOF
      (`D header|message|remaining`, `R CRC`, `R <exception class>`, `N` = `IncompleteReadError`);
  * if delivered (h, m): `driver reframe`  ==  bytes written by the real `send_with_header(h', m)` with
      `h' = h` but `message_length = encoder.size(m)`;  `driver send <pid>`  ==  bytes written by the real
      `send(m)` with the header factory's counter at `pid`;
  * if the model says the delivered message is well formed (`wfframe`): the frame written by the real `send(m)`
      must be delivered by the real receive path as an equal message under the factory's header (C03 on whole
      frames) - failures are reported as `VIOL`, they are defects of the package, not of the model.

Ends with `frames <n> broken <k>`.  Set VERIF_LEAN_DIR to use a scratch copy's driver, N for the number of
generated payloads per module (default 400), VERIF_SEED for the seed.
"""
import asyncio
import dataclasses
import importlib
import logging
import os
import random
import struct
import sys

HERE = os.path.dirname(os.path.abspath(__file__))
sys.path.insert(0, HERE)
sys.path.insert(0, os.environ.get("VERIF_REPO", "/repo"))
import core  # noqa: E402

if os.environ.get("VERIF_LEAN_DIR"):
    core.LEAN_DIR = os.environ["VERIF_LEAN_DIR"]
    core.BIN_DIR = os.path.join(core.LEAN_DIR, ".lake", "build", "bin")
import codec  # noqa: E402
import codeccheck  # noqa: E402
from canon import canon, exc_name  # noqa: E402


def ename(e):
    return exc_name(e)[4:]


class Capture(logging.Handler):
    def __init__(self):
        super().__init__(level=logging.DEBUG)
        self.records = []

    def emit(self, record):
        self.records.append(record)


class FakeWriter:
    """stands in for the StreamWriter of a connected socket: collects what `_write` writes"""

    def __init__(self):
        self.data = bytearray()
        self.writes = 0

    def write(self, d):
        self.data.extend(d)
        self.writes += 1

    async def drain(self):
        return None

    def close(self):
        return None

    def is_closing(self):
        return False

    async def wait_closed(self):
        return None


class Real:
    """the real package for one generation"""

    def __init__(self, gen):
        self.gen = gen
        self.R = importlib.import_module("pyairtouch.at%d.comms.registry" % gen)
        self.hdr = importlib.import_module("pyairtouch.at%d.comms.hdr" % gen)
        self.x1f = importlib.import_module("pyairtouch.at%d.comms.x1F_ext" % gen)
        self.xc0 = importlib.import_module("pyairtouch.at5.comms.xC0_ctrl_status") if gen == 5 else None
        self.H = self.hdr.At4Header if gen == 4 else self.hdr.At5Header
        self.S = importlib.import_module("pyairtouch.comms.socket")
        self.reg = self.R.INSTANCE
        self.loop = asyncio.new_event_loop()
        self.sock = self.S.AirTouchSocket(self.loop, "console", 9004 if gen == 4 else 9005, self.reg)
        self.cap = Capture()
        lg = logging.getLogger("pyairtouch.comms.socket")
        lg.setLevel(logging.DEBUG)
        lg.propagate = False
        for h in list(lg.handlers):
            lg.removeHandler(h)
        lg.addHandler(self.cap)
        logging.disable(logging.NOTSET)
        self.fw = FakeWriter()
        self.cs_start = 2 if gen == 4 else 14
        self.hlen = self.reg.header_decoder.header_length

    # ---------------------------------------------------------------- receive path
    def read_one(self, bs):
        """-> (text, (header, message) or None)"""
        reader = asyncio.StreamReader(loop=self.loop)
        if bs:
            reader.feed_data(bytes(bs))
        reader.feed_eof()
        self.sock._reader = reader
        self.cap.records.clear()
        try:
            res = self.loop.run_until_complete(self.sock._read_one_message())
        except asyncio.IncompleteReadError:
            return "N", None
        except Exception as e:  # noqa: BLE001
            return "R " + ename(e), None
        finally:
            self.sock._reader = None
        if res is None:
            msgs = [str(r.msg) for r in self.cap.records]
            if any(m.startswith("CRC validation failed") for m in msgs):
                return "R CRC", None
            if any(m.startswith("Error decoding bytes") for m in msgs):
                return "R DecodeError", None
            return "R ?none", None
        h, m = res
        return "D %s|%s|%d" % (canon(h), canon(m), len(reader._buffer)), (h, m)

    # ---------------------------------------------------------------- send path
    def _connected(self):
        self.sock.is_open = True
        self.sock.is_connected = True
        self.sock._writer = self.fw
        self.sock._message_queue.clear()
        self.fw.data = bytearray()
        self.fw.writes = 0
        self.partial = b""
        self.cap.records.clear()

    def _written(self):
        for r in self.cap.records:
            if str(r.msg).startswith("Encoding error for message") and r.exc_info:
                # a message the send path gives up on must leave nothing on the wire (a header announcing a payload that never
                # comes makes the NEXT frame unreadable)
                self.partial = bytes(self.fw.data)
                return "ENCERR:" + ename(r.exc_info[1]), None
        if self.sock._message_queue:
            return "ENCERR:?queued", None
        if not self.fw.data and not self.fw.writes:
            return "ENCERR:?nothing-written", None
        return codec.hx(self.fw.data), bytes(self.fw.data)

    def send(self, msg, pid):
        """the real `socket.send(msg)` on a connected socket whose header factory counter is `pid`"""
        self._connected()
        self.reg.header_factory._next_packet_id = pid
        try:
            self.loop.run_until_complete(self.sock.send(msg, self.S.RETRY_NON_IDEMPOTENT))
        except Exception as e:  # noqa: BLE001
            return "ENCERR:" + ename(e), None
        return self._written()

    def resend(self, h, msg):
        """`send_with_header(h', msg)` with `h'` = `h` but the length recomputed by the encoder's `size`"""
        try:
            size = self.reg.get_encoder(msg.message_id).size(msg)
        except Exception as e:  # noqa: BLE001
            return "ENCERR:" + ename(e), None
        h2 = dataclasses.replace(h, message_length=size)
        self._connected()
        try:
            self.loop.run_until_complete(self.sock.send_with_header(h2, msg, self.S.RETRY_NON_IDEMPOTENT))
        except Exception as e:  # noqa: BLE001
            return "ENCERR:" + ename(e), None
        return self._written()

    # ---------------------------------------------------------------- frame building from raw parts
    def crc(self, data):
        return bytes(self.reg.checksum_calculator.calculate(bytes(data)))

    def raw_frame(self, message_id, payload, to=0xB0, frm=0x80, pid=1, length=None):
        h = self.H(to_address=to, from_address=frm, packet_id=pid, message_id=message_id,
                   message_length=len(payload) if length is None else length)
        eh = self.reg.header_encoder.encode(h)
        return bytes(eh.header_bytes) + bytes(payload) + self.crc(bytes(eh.checksum_data) + bytes(payload))

    def refresh_crc(self, frame):
        """recompute the two check bytes of a (possibly damaged) frame over everything behind the prefix"""
        if len(frame) < self.hlen + 2:
            return frame
        return frame[:-2] + self.crc(frame[self.cs_start:-2])

    def wrap(self, mod, msg):
        if mod.kind == "top":
            return msg
        if mod.kind == "ext":
            return self.x1f.ExtendedMessage(msg)
        return self.xc0.ControlStatusMessage(msg)

    def wrap_payload(self, mod, payload, hp):
        """the 0x1F / 0xC0 sub-header in front of a leaf payload; -> (top-level message id, bytes)"""
        if mod.kind == "top":
            return mod.m.MESSAGE_ID, bytes(payload)
        if mod.kind == "ext":
            return 0x1F, struct.pack("!H", mod.m.MESSAGE_ID) + bytes(payload)
        return 0xC0, struct.pack("!BxHHH", mod.m.MESSAGE_ID, hp[0] & 0xFFFF, hp[1] & 0xFFFF, hp[2] & 0xFFFF) + bytes(payload)


def addresses(rng):
    r = rng.random()
    if r < 0.5:
        return 0xB0, 0x80
    if r < 0.7:
        return 0xB0, 0x90
    if r < 0.8:
        return 0x80, 0xB0
    return rng.randrange(256), rng.randrange(256)


def gen_cases(real, rng, n, ctx):
    """-> list of (kind, bytes)"""
    gens = codeccheck.load_generators()
    cases = []
    good = []        # well-shaped frames, the raw material for mutations
    mods = [m.load() for m in codec.MODULES if m.gen == real.gen]
    for mod in mods:
        g = gens.get((mod.gen, mod.key))
        tag = "%d/%s" % (mod.gen, mod.key)
        for _ in range(n):
            payload, hp = g(rng) if (g is not None and rng.random() < 0.7) else codec.gen_payload(mod, rng)
            # (a) raw: the generated payload behind its wrapper, length field = real length
            mid, body = real.wrap_payload(mod, payload, hp)
            to, frm = addresses(rng)
            fr = real.raw_frame(mid, body, to, frm, rng.randrange(256))
            cases.append(("raw:" + tag, fr))
            if rng.random() < 0.3:
                good.append(fr)
            # (b) sent: decode with the real leaf decoder, send the message with the real send path
            try:
                msg = mod.dec.decode(bytes(payload), mod.header(hp)).message
            except Exception:  # noqa: BLE001
                continue
            txt, data = real.send(real.wrap(mod, msg), rng.randrange(256))
            if data is None:
                ctx.count("send-raised:%s:%s" % (tag, txt))
                continue
            cases.append(("sent:" + tag, data))
            good.append(data)
    # ---- unknown type bytes / sub-ids / sub-types
    known = set(real.reg._decoder_map.keys())
    ext_known = set(real.x1f_ids())
    cs_known = set(real.cs_ids())
    for _ in range(n * 2):
        mid = rng.choice([i for i in range(256) if i not in known])
        payload = codec.rand_bytes(rng, rng.choice([0, 0, 1, 2, 3, 8, 17, 40, 300]))
        to, frm = addresses(rng)
        fr = real.raw_frame(mid, payload, to, frm, rng.randrange(256))
        cases.append(("unknown-id", fr))
        good.append(fr)
    for _ in range(n * 2):
        r = rng.random()
        if r < 0.5:
            sub = rng.randrange(65536)
        elif r < 0.8:
            sub = rng.choice(sorted(ext_known)) ^ (1 << rng.randrange(16))
        else:
            sub = rng.choice([0, 0xFF00, 0xFFFF, 0x1F, 0xFF14, 0xFF21, 0xFF31, 0xFF48])
        if sub in ext_known and rng.random() < 0.9:
            continue
        payload = codec.rand_bytes(rng, rng.choice([0, 0, 1, 2, 5, 9, 30, 200]))
        body = struct.pack("!H", sub) + payload
        if rng.random() < 0.06:
            body = body[:rng.randrange(2)]            # fewer than two bytes: struct.error
        fr = real.raw_frame(0x1F, body, *addresses(rng), rng.randrange(256))
        cases.append(("unknown-ext-sub", fr))
        good.append(fr)
    if real.gen == 5:
        for _ in range(n * 2):
            sub = rng.randrange(256)
            if sub in cs_known and rng.random() < 0.9:
                continue
            nr = rng.choice([0, 0, 1, 2, 7])
            rl = rng.choice([0, 1, 4, 8, 10])
            rc = rng.choice([0, 1, 2, 5])
            want = nr + rl * rc
            r = rng.random()
            ln = want if r < 0.7 else max(0, want - rng.randint(1, 3)) if r < 0.85 else want + rng.randint(1, 4)
            body = struct.pack("!BBHHH", sub, rng.choice([0, 0, 0, rng.randrange(256)]), nr, rl, rc) + codec.rand_bytes(rng, ln)
            if rng.random() < 0.06:
                body = body[:rng.randrange(8)]        # short sub-header: struct.error
            fr = real.raw_frame(0xC0, body, *addresses(rng), rng.randrange(256))
            cases.append(("unknown-cs-sub", fr))
            good.append(fr)
    # ---- mutations
    hl = real.hlen
    for _ in range(n * 12):
        fr = bytearray(rng.choice(good))
        k = rng.randrange(12)
        if k == 0:                                   # one bit anywhere, check bytes untouched
            i = rng.randrange(len(fr))
            fr[i] ^= 1 << rng.randrange(8)
            cases.append(("mut:bitflip", bytes(fr)))
        elif k == 1:                                 # one or two bits in the covered part, check bytes recomputed
            for _ in range(rng.choice([1, 1, 2])):
                i = rng.randrange(real.cs_start, max(real.cs_start + 1, len(fr) - 2))
                fr[i] ^= 1 << rng.randrange(8)
            cases.append(("mut:bitflip+crc", real.refresh_crc(bytes(fr))))
        elif k == 2:                                 # one payload byte replaced, check bytes recomputed
            if len(fr) > hl + 2:
                i = rng.randrange(hl, len(fr) - 2)
                fr[i] = rng.randrange(256)
            cases.append(("mut:payload-byte+crc", real.refresh_crc(bytes(fr))))
        elif k == 3:                                 # truncation
            cases.append(("mut:truncated", bytes(fr[:rng.randrange(len(fr))])))
        elif k == 4:                                 # wrong length field, check bytes for the original span
            ln = struct.unpack("!H", fr[hl - 2:hl])[0]
            new = max(0, ln + rng.choice([-3, -2, -1, 1, 2, 5]))
            fr[hl - 2:hl] = struct.pack("!H", new)
            if real.gen == 5 and rng.random() < 0.7:
                fr[6:8] = fr[8:10] = struct.pack("!H", (new + 12) & 0xFFFF)
            cases.append(("mut:length", bytes(fr)))
        elif k == 5:                                 # shorter length field and consistent check bytes
            ln = struct.unpack("!H", fr[hl - 2:hl])[0]
            new = max(0, ln - rng.choice([1, 2, 3, 4, 8]))
            fr[hl - 2:hl] = struct.pack("!H", new)
            if real.gen == 5:
                fr[6:8] = fr[8:10] = struct.pack("!H", (new + 12) & 0xFFFF)
            body = bytes(fr[:hl + new])
            cases.append(("mut:length+crc", body + real.crc(body[real.cs_start:]) + bytes(fr[hl + new:])))
        elif k == 6:                                 # wrong prefix
            i = rng.randrange(2 if real.gen == 4 else 4)
            fr[i] = rng.choice([0x54, 0x00, 0xAA, 0xAB, 0xFF, rng.randrange(256)])
            cases.append(("mut:prefix", bytes(fr)))
        elif k == 7:
            if real.gen == 5:                        # outer lengths / padding / inner prefix
                j = rng.randrange(5)
                if j == 0:
                    fr[6:8] = struct.pack("!H", (struct.unpack("!H", fr[6:8])[0] + rng.choice([1, -1, 256])) & 0xFFFF)
                elif j == 1:
                    fr[8:10] = struct.pack("!H", (struct.unpack("!H", fr[8:10])[0] + rng.choice([1, -1, 256])) & 0xFFFF)
                elif j == 2:
                    v = struct.pack("!H", (struct.unpack("!H", fr[6:8])[0] + rng.choice([1, -1, 2])) & 0xFFFF)
                    fr[6:8] = fr[8:10] = v
                elif j == 3:
                    fr[4 + rng.randrange(2)] = rng.randrange(256)      # the two pad bytes are ignored
                else:
                    fr[10 + rng.randrange(4)] ^= 1 << rng.randrange(8)
                cases.append(("mut:outer", bytes(fr)))
            else:
                fr[2 + rng.randrange(4)] = rng.randrange(256)           # address / packet id / message id, stale CRC
                cases.append(("mut:hdr-byte", bytes(fr)))
        elif k == 8:                                 # header field replaced, check bytes recomputed
            i = real.cs_start + rng.randrange(4)
            fr[i] = rng.randrange(256)
            cases.append(("mut:hdr-byte+crc", real.refresh_crc(bytes(fr))))
        elif k == 9:                                 # trailing bytes
            cases.append(("mut:trailing", bytes(fr) + codec.rand_bytes(rng, rng.randint(1, 12))))
        elif k == 10:                                # two frames back to back
            cases.append(("mut:two-frames", bytes(fr) + rng.choice(good)))
        else:                                        # check bytes replaced
            fr[-2:] = bytes([rng.randrange(256), rng.randrange(256)])
            cases.append(("mut:crc-bytes", bytes(fr)))
    # ---- random bytes
    prefix = bytes(real.raw_frame(0x2B, b"")[:real.cs_start])
    for _ in range(n * 2):
        r = rng.random()
        ln = rng.choice([0, 1, 2, 7, 8, 9, 10, 19, 20, 21, 22, 40, 100])
        if r < 0.4:
            cases.append(("random", codec.rand_bytes(rng, ln)))
        elif r < 0.7:
            cases.append(("random-after-prefix", prefix + codec.rand_bytes(rng, ln)))
        else:
            # a header announcing a small length, random rest
            fr = bytearray(real.raw_frame(rng.randrange(256), codec.rand_bytes(rng, rng.randrange(12)), rng.randrange(256), rng.randrange(256), rng.randrange(256)))
            for _ in range(rng.randint(1, 3)):
                if len(fr) > real.hlen:
                    fr[rng.randrange(real.hlen, len(fr))] = rng.randrange(256)
            cases.append(("random-body", bytes(fr)))
    return cases


def _x1f_ids(self):
    return list(self.R._extended_decoder._decoder_map.keys())


def _cs_ids(self):
    return list(self.R._ctrl_status_decoder._decoder_map.keys()) if self.gen == 5 else []


Real.x1f_ids = _x1f_ids
Real.cs_ids = _cs_ids


def run_gen(ctx, gen, n):
    rng = ctx.rng
    real = Real(gen)
    cases = gen_cases(real, rng, n, ctx)
    seen = set()
    uniq = []
    for kind, b in cases:
        if b in seen:
            continue
        seen.add(b)
        uniq.append((kind, b))
    cases = uniq
    model = ctx.driver(["parse %d %s" % (gen, codec.hx(b)) for _, b in cases])
    follow = []     # (index, header, message, pid)
    for i, (kind, b) in enumerate(cases):
        txt, hm = real.read_one(b)
        ctx.case((gen, b))
        ctx.count("%d:%s:%s" % (gen, kind.split(":")[0] if kind.startswith(("raw", "sent")) else kind, txt.split(" ")[0] + (" " + txt.split(" ")[1] if txt[0] == "R" else "")))
        if model[i] != txt:
            ctx.tie_broken("correspondence:parse %d %s" % (gen, kind),
                           "model %r != implementation %r on stream %s" % (model[i][:400], txt[:400], codec.hx(b)),
                           input=[gen, codec.hx(b)])
        if hm is not None:
            follow.append((i, hm[0], hm[1], rng.randrange(256)))
    lines = []
    for i, h, m, pid in follow:
        hexb = codec.hx(cases[i][1])
        lines += ["reframe %d %s" % (gen, hexb), "send %d %d %s" % (gen, pid, hexb), "wfframe %d %s" % (gen, hexb)]
    out = ctx.driver(lines) if lines else []
    worst = {}
    for j, (i, h, m, pid) in enumerate(follow):
        kind, b = cases[i]
        m_re, m_send, m_wf = out[3 * j], out[3 * j + 1], out[3 * j + 2]
        r_re, _ = real.resend(h, m)
        r_send, sent = real.send(m, pid)
        if m_re != r_re:
            ctx.tie_broken("correspondence:reframe %d %s" % (gen, kind),
                           "model %r != implementation %r for the message delivered from %s" % (m_re[:300], r_re[:300], codec.hx(b)),
                           input=[gen, codec.hx(b)])
        if m_send != r_send:
            ctx.tie_broken("correspondence:send %d %s" % (gen, kind),
                           "model %r != implementation %r (pid %d) for the message delivered from %s" % (m_send[:300], r_send[:300], pid, codec.hx(b)),
                           input=[gen, pid, codec.hx(b)])
        ctx.count("%d:resend:%s" % (gen, "ok" if sent is not None else r_send))
        if sent is None and real.partial:
            key = "partial-frame:" + canon(m).split("(")[0]
            if key not in worst:
                worst[key] = (b, canon(m), "the send path gave up on this message (%s) after writing %d bytes (%s): the announced payload never follows, the next frame on the "
                              "connection cannot be read" % (r_send, len(real.partial), codec.hx(real.partial)))
            continue
        if m_wf != "1":
            ctx.count("%d:not-well-formed" % gen)
            continue
        ctx.count("%d:well-formed" % gen)
        # C03 on whole frames, judged on the implementation alone
        why = None
        if sent is None:
            why = "the send path raised %s on a well-formed message" % r_send
        else:
            t2, hm2 = real.read_one(sent)
            if hm2 is None:
                why = "the frame written by send() is not delivered: %s" % t2
            else:
                h2, m2 = hm2
                want = real.reg.header_factory
                want._next_packet_id = pid
                try:
                    hw = want.create_from_message(m, real.reg.get_encoder(m.message_id).size(m))
                except Exception as e:  # noqa: BLE001
                    hw = None
                    why = "header factory raised %s" % ename(e)
                if why is None and not t2.endswith("|0"):
                    why = "bytes left over: %s" % t2[-20:]
                elif why is None and m2 != m:
                    why = "delivered message differs: %s" % canon(m2)[:300]
                elif why is None and h2 != hw:
                    why = "delivered header %s differs from the factory's %s" % (canon(h2), canon(hw))
                elif why is None and hw.message_length != len(sent) - real.hlen - 2:
                    why = "announced length %d but %d payload bytes written" % (hw.message_length, len(sent) - real.hlen - 2)
        if why is not None:
            key = canon(m).split("(")[0] + ":" + (canon(m.sub_message).split("(")[0] if hasattr(m, "sub_message") else "")
            if key not in worst or len(b) < len(worst[key][0]):
                worst[key] = (b, canon(m), why)
    for key, (b, txt, why) in sorted(worst.items()):
        ctx.violation("C03:frame:%d:%s" % (gen, key),
                      "gen %d message %s (delivered from %s) does not survive send/receive on the implementation: %s" % (gen, txt[:400], codec.hx(b), why))
    return len(cases)


def main():
    n = int(os.environ.get("N", "400"))
    gens = [int(a) for a in sys.argv[1:]] or [4, 5]
    ctx = core.Ctx("C03", "quick", int(os.environ.get("VERIF_SEED", "1")))
    ctx.driver_ok = True
    total = 0
    for g in gens:
        total += run_gen(ctx, g, n)
    seen = set()
    for b in ctx.broken:
        if b["name"] in seen:
            continue
        seen.add(b["name"])
        print("BROKEN", b["name"], b["detail"][:1200])
    for v in ctx.violations[:12]:
        print("VIOL", v["what"][:1200])
    print({k: v for k, v in sorted(ctx.dist.items())})
    print("viol", len(ctx.violations))
    print("frames", total, "broken", len(ctx.broken))


if __name__ == "__main__":
    main()
