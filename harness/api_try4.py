#!/venv/bin/python
"""api_try4.py [n] [seed]: differential of the real AirTouch 4 API objects against the Lean model
(`apicheck.compare` on `n` generated scripts).  Prints `scripts <n> broken <k>` and the first disagreements.
Set VERIF_LEAN_DIR to use a scratch copy's driver."""
import os
import sys

HERE = os.path.dirname(os.path.abspath(__file__))
sys.path.insert(0, HERE)
sys.path.insert(0, os.environ.get("VERIF_REPO", "/repo"))
import core  # noqa: E402

if os.environ.get("VERIF_LEAN_DIR"):
    core.LEAN_DIR = os.environ["VERIF_LEAN_DIR"]
    core.BIN_DIR = os.path.join(core.LEAN_DIR, ".lake", "build", "bin")
import logging  # noqa: E402

import apicheck  # noqa: E402
import apigen4  # noqa: E402

logging.disable(logging.CRITICAL)      # the API logs every subscriber exception with a traceback


def main():
    n = int(sys.argv[1]) if len(sys.argv) > 1 else int(os.environ.get("N", "2000"))
    seed = int(sys.argv[2]) if len(sys.argv) > 2 else int(os.environ.get("VERIF_SEED", "1"))
    ctx = core.Ctx("C09", "quick", seed)
    ctx.driver_ok = True
    apigen4.selfcheck()
    broken = []
    ties = 0
    fam_count = {}
    nops = 0
    kinds = {}
    for fam, ops in apigen4.scripts(seed, n):
        fam_count[fam] = fam_count.get(fam, 0) + 1
        nops += len(ops)
        real, mism = apicheck.compare(ctx, 4, ops, label=fam)
        for out in real:
            for line in out:
                k = line.split(" ", 1)[0]
                if k == "RESULT":
                    k = " ".join(line.split(" ")[:3]) if line.startswith("RESULT init") else line
                kinds[k] = kinds.get(k, 0) + 1
        if mism:
            # scheduling ties (two one-step timer tasks due in the same tick) are ordered by CPython's timer heap,
            # which the model does not represent: the model reports them, such scripts are set aside
            t = ctx.driver(["api-new 4"] + ["api " + o for o in ops[: mism["index"] + 1]] + ["api ties"])[-1]
            if t != "0":
                ties += 1
                continue
            broken.append((fam, ops, mism))
    print("scripts", n, "broken", len(broken), "ops", nops, "set-aside-for-scheduling-ties", ties)
    print("families", dict(sorted(fam_count.items())))
    print("outputs", dict(sorted(kinds.items())))
    for fam, ops, m in broken[:int(os.environ.get("SHOW", "3"))]:
        print("BROKEN family", fam, "at op", m["index"], repr(m["op"]))
        import apicheck as _a
        ri, mo = _a.canon_out(m["implementation"]), _a.canon_out(m["model"])
        print("  implementation lines %d, model lines %d" % (len(ri), len(mo)))
        for a, b in zip(ri + ["<none>"] * len(mo), mo + ["<none>"] * len(ri)):
            if a != b:
                k = next((i for i in range(min(len(a), len(b))) if a[i] != b[i]), min(len(a), len(b)))
                print("  first differing line, at char %d:" % k)
                print("    implementation: ..." + a[max(0, k - 160):k + 160])
                print("    model         : ..." + b[max(0, k - 160):k + 160])
                break
        print("  script:")
        for o in ops[: m["index"] + 1]:
            print("    " + o)


if __name__ == "__main__":
    main()
