"""Runs the real `AirTouchSocket` on the virtual-clock loop under a scripted environment and records,
for every asyncio task step (= atomic block between two suspension points), the observable events
it produced and a snapshot of the socket's private state at the suspension.

No source hook is needed: tasks are pure-Python `asyncio.Task`s created through a task factory whose
`__step` is bracketed by the recorder; connections are `vloop.FakeTransport`s.
"""
import asyncio
import logging
import sys

import vloop
from vloop import TICK, ticks

asyncio_tasks = asyncio.tasks


class Recorder:
    def __init__(self, loop):
        self.loop = loop
        self.steps = []          # dicts: task, t, events, snap
        self.cur = None
        self.names = {}
        self.sock = None
        self.msg_sid = {}        # id(message) -> sid
        self.frames = {}         # frame bytes -> sid
        self.wbuf = {}           # cid -> pending bytes inside the current step
        self.keep = []           # strong refs (StreamWriter.__del__ would close leaked transports)

    def name(self, task):
        if task not in self.names:
            coro = task.get_coro()
            qn = getattr(coro, "__qualname__", type(coro).__name__).split(".")[-1]
            self.names[task] = "T%d:%s" % (len(self.names), qn)
        return self.names[task]

    def snap(self):
        s = self.sock
        if s is None:
            return None
        w = s._writer
        if w is not None:
            self.keep.append(w)
        return {
            "open": bool(s.is_open),
            "conn": bool(s.is_connected),
            "connecting": bool(getattr(s, "_connecting", False)),
            "w": None if w is None else w.transport.cid if w.transport is not None else getattr(w, "_cid", -1),
            "q": [[self.msg_sid.get(id(e.message), -1), e.retries_remaining, ticks(e.expiry)] for e in s._message_queue],
        }

    def begin(self, task):
        self.cur = {"task": self.name(task), "t": ticks(self.loop.time()), "events": [], "snap": None}

    def end(self, task):
        st = self.cur
        self.cur = None
        self._flush_writes(st)
        st["snap"] = self.snap()
        st["done"] = task.done()
        if st["task"].endswith(":wait_closed") and not st["events"]:
            # the helper task of `asyncio.shield(writer.wait_closed())`: it only waits for the stream's close
            # future, touches nothing of the socket and is part of the awaiting task's suspension
            return
        self.steps.append(st)

    def emit(self, *ev):
        if self.cur is None:
            # loop callback outside any task step (transport callbacks): its own pseudo step
            st = {"task": "-", "t": ticks(self.loop.time()), "events": [list(ev)], "snap": self.snap(), "done": False}
            self.steps.append(st)
        else:
            self.cur["events"].append(list(ev))

    # transport writes are grouped into frames
    def net_event(self, e):
        kind = e[0]
        if kind == "write":
            _, t, cid, data = e
            self.wbuf.setdefault(cid, bytearray()).extend(data)
            self._match(cid, t, "wire")
        elif kind == "dropped_write":
            _, t, cid, data = e
            key = ("d", cid)
            self.wbuf.setdefault(key, bytearray()).extend(data)
            self._match(key, t, "deadwrite")
        elif kind == "write_fault":
            # the faulted write carries the first part of a frame: identify the frame by its prefix
            _, t, cid, data = e
            sid = -1
            for fr, s in self.frames.items():
                if fr.startswith(bytes(data)):
                    sid = s
            self.emit("writeFault", cid, sid, t)
        elif kind == "mutated":
            # bytes handed to a congested transport changed before they could leave it: what goes out is not the frame of any submitted message
            _, t, cid, was, now = e
            self.emit("wireUnknown", cid, bytes(now).hex(), t)
        elif kind in ("udp_send", "udp_close"):
            self.emit(kind, *e[2:], e[1])
        else:
            self.emit(kind, *e[2:], e[1])

    def _match(self, key, t, name):
        buf = self.wbuf[key]
        cid = key if isinstance(key, int) else key[1]
        for fr, sid in self.frames.items():
            if bytes(buf) == fr:
                self.emit(name, cid, sid, t)
                buf.clear()
                return

    def _flush_writes(self, st):
        for key, buf in self.wbuf.items():
            if buf:
                cid = key if isinstance(key, int) else key[1]
                # partial frame at the end of a step: after a write fault the remaining parts are
                # dropped writes; anything else is reported as unknown bytes
                if isinstance(key, tuple):
                    st["events"].append(["deadwritePartial", cid, st["t"]])
                else:
                    st["events"].append(["wireUnknown", cid, bytes(buf).hex(), st["t"]])
                buf.clear()


class StepTask(asyncio_tasks._PyTask):
    recorder = None

    def _Task__step(self, exc=None):
        rec = StepTask.recorder
        outer = rec.cur
        rec.begin(self)
        try:
            super()._Task__step(exc)
        finally:
            rec.end(self)
            rec.cur = outer


class DropLog(logging.Handler):
    def __init__(self, rec):
        super().__init__(level=logging.DEBUG)
        self.rec = rec

    def emit(self, record):
        msg = record.msg
        try:
            if msg.startswith("Dropped message"):
                reason, _hdr, message = record.args
                sid = self.rec.msg_sid.get(id(message), -1)
                self.rec.emit("qdrop", sid, {"expired": "expired", "max-retries": "maxRetries"}.get(reason, reason), ticks(self.rec.loop.time()))
            elif msg.startswith("Encoding error for message"):
                (message,) = record.args
                sid = self.rec.msg_sid.get(id(message), -1)
                self.rec.emit("qdrop", sid, "encErr", ticks(self.rec.loop.time()))
            elif msg.startswith("Unhandled exception in background task"):
                self.rec.emit("bgException", type(record.exc_info[1]).__name__ if record.exc_info else "?", ticks(self.rec.loop.time()))
            elif msg.startswith("_read(): Unexpected exception"):
                self.rec.emit("readUnexpected", ticks(self.rec.loop.time()))
        except Exception:  # noqa: BLE001
            pass


POLICIES = {"idem": (2, 240), "nonidem": (0, 240), "conn": (0, 8),
            # policies of the caller's own making (RetryPolicy is a public type): expired on arrival, half a second, five minutes with five retries
            "zero": (2, 0), "brief": (1, 4), "long": (5, 2400)}


class Env:
    """One scripted run of a socket against the fake network."""
    policy_baseline = None

    def __init__(self, gen=4):
        self.gen = gen
        self.loop = vloop.VLoop()
        self.net = vloop.Net(self.loop)
        self.loop.net = self.net
        self.rec = Recorder(self.loop)
        StepTask.recorder = self.rec
        self.loop.set_task_factory(lambda loop, coro, **kw: StepTask(coro, loop=loop, **kw))
        self.net.listeners.append(self.rec.net_event)
        self.raise_conn_sub = False
        self.raise_msg_sub = False
        self.conn_sub_sends = []
        self.send_tasks = {}
        self.fail_counter = 0
        self.api_tasks = []
        self.close_tasks = []
        self._setup_socket()

    def _setup_socket(self):
        import pyairtouch.comms.socket as S
        self.S = S
        if self.gen == 4:
            import pyairtouch.at4.comms.registry as R
            import pyairtouch.at4.comms.x2A_group_ctrl as gc
            self.gc = gc
        else:
            import pyairtouch.at5.comms.registry as R
            import pyairtouch.at5.comms.xC020_zone_ctrl as zc
            self.zc = zc
        self.R = R
        reg = R.INSTANCE
        reg.header_factory._next_packet_id = 0
        self.reg = reg
        self.sock = S.AirTouchSocket(self.loop, "console", 9004 if self.gen == 4 else 9005, reg)
        self.rec.sock = self.sock
        top = logging.getLogger("pyairtouch")
        if not any(isinstance(x, logging.NullHandler) for x in top.handlers):
            top.addHandler(logging.NullHandler())
        top.propagate = False
        logging.disable(logging.NOTSET)
        lg = logging.getLogger("pyairtouch.comms.socket")
        # the package has branches that depend on the log level (`isEnabledFor(DEBUG)`): half of the runs have debug logging on
        lg.setLevel(logging.DEBUG if getattr(self, "debug_log", False) else logging.WARNING)
        for h in list(lg.handlers):
            if isinstance(h, DropLog):
                lg.removeHandler(h)
        self.drop_handler = DropLog(self.rec)
        lg.addHandler(self.drop_handler)
        lg.propagate = False
        env = self

        class ConnSub:
            def __call__(self, *, connected):
                env.rec.emit("notify", 1 if connected else 0, ticks(env.loop.time()))
                return env._conn_body(connected)

        class MsgSub:
            def __call__(self, header, message):
                w = env.sock._writer
                cid = w.transport.cid if (w is not None and w.transport is not None) else -1
                env.rec.emit("deliver", cid, env._tag(message), ticks(env.loop.time()))
                return env._msg_body(header, message)

        orig_enqueue = self.sock._enqueue_message

        def enqueue(entry):
            sid = env.rec.msg_sid.get(id(entry.message))
            fr = env.expected_frame(entry.header, entry.message)
            if fr is not None and sid is not None:
                env.rec.frames[fr] = sid
            return orig_enqueue(entry)

        self.sock._enqueue_message = enqueue
        self.conn_sub = ConnSub()
        self.msg_sub = MsgSub()
        self.sock.subscribe_on_connection_changed(self.conn_sub)
        self.sock.subscribe_on_message_received(self.msg_sub)
        self.delivered = []
        self.delivered_canon = []

    async def _conn_body(self, connected):
        slow = getattr(self, "conn_sub_slow", 0)
        if isinstance(slow, tuple):
            slow = slow[1] if connected else slow[0]          # (passes spent on "disconnected", passes spent on "connected")
        for _ in range(slow):
            await asyncio.sleep(0)            # an application whose connection callback takes a few loop passes
        if connected and self.conn_sub_sends:
            # like the API objects: the connection subscriber sends a request from inside the notification
            sid, kind, policy = self.conn_sub_sends.pop(0)
            await self._api_send(sid, kind, policy)
        if self.raise_conn_sub:
            raise RuntimeError("subscriber failure (injected)")

    async def _msg_body(self, header, message):
        self.delivered.append(message)
        try:
            from canon import canon
            self.delivered_canon.append(canon(header) + "|" + canon(message))
        except Exception as e:  # noqa: BLE001
            self.delivered_canon.append("uncanonical:%s" % type(e).__name__)
        if self.raise_msg_sub:
            raise RuntimeError("subscriber failure (injected)")

    def _tag(self, message):
        return getattr(message, "message_id", 0)

    # ------------------------------------------------------------------ messages
    def make_message(self, sid, kind="ok"):
        if self.gen == 4:
            gc = self.gc
            if kind == "ok" and sid % 7 == 5:
                import pyairtouch.at4.comms.x1F_ext as x1f
                import pyairtouch.at4.comms.x1FFF12_group_names as gn
                return x1f.ExtendedMessage(gn.GroupNamesMessage({(sid + k) % 16: ("G%d" % sid)[:8] for k in range(1 + sid % 3)}))
            if kind == "ok":
                return gc.GroupControlMessage(group_number=sid % 16, power=gc.GroupPowerControl.UNCHANGED,
                                              control_method=gc.GroupControlMethod.UNCHANGED,
                                              setting=gc.GroupDamperControl(open_percentage=(sid // 16) % 101))
            if kind == "bad_struct":   # set-point 300 -> struct.error in the encoder
                return gc.GroupControlMessage(group_number=sid % 16, power=gc.GroupPowerControl.UNCHANGED,
                                              control_method=gc.GroupControlMethod.TEMPERATURE,
                                              setting=gc.GroupSetPointControl(set_point=300))
            if kind == "bad_notimpl":
                from pyairtouch import comms
                return comms.UnsupportedMessage(unsupported_id=0x77, raw_data=b"")
            if kind == "bad_attr":
                return gc.GroupControlMessage(group_number=sid % 16, power=None, control_method=gc.GroupControlMethod.UNCHANGED, setting=None)
        else:
            zc = self.zc
            if kind == "ok" and sid % 7 == 5:
                # not every message is a fixed-size control message: a names message whose size depends on its content (two of them queued
                # together are sized before the first is encoded)
                import pyairtouch.at5.comms.x1F_ext as x1f
                import pyairtouch.at5.comms.x1FFF13_zone_names as zn
                names = {(sid + k) % 16: ("Z%d" % sid) * (1 + (sid + k) % 3) for k in range(2)}
                return x1f.ExtendedMessage(zn.ZoneNamesMessage(names))
            if kind == "ok":
                return self._at5_zone(sid)
            if kind == "bad_struct":
                return self._at5_zone(sid, bad=True)
            if kind == "bad_attr":
                m = self._at5_zone(sid)
                m.sub_message.zone_control[0].zone_power = None
                return m
            if kind == "bad_notimpl":
                from pyairtouch import comms
                return comms.UnsupportedMessage(unsupported_id=0x77, raw_data=b"")
        raise ValueError(kind)

    def _at5_zone(self, sid, bad=False):
        import pyairtouch.at5.comms.xC0_ctrl_status as cs
        zc = self.zc
        setting = zc.ZoneSetPointControl(set_point=5.0) if bad else zc.ZoneDamperControl(open_percentage=(sid // 16) % 101)
        # (a control message may address several zones at once: one, two or three records, depending on the sid - messages of the same kind
        # with different record counts wait in the buffer together)
        n = 1 + (1 if sid % 7 == 3 else 0) + (1 if sid % 11 == 4 else 0)
        sub = zc.ZoneControlMessage(zone_control=[zc.ZoneControlData(zone_number=(sid + k) % 16, zone_power=zc.ZonePowerControl.UNCHANGED, zone_setting=setting)
                                                  for k in range(n)])
        return cs.ControlStatusMessage(sub)

    def expected_frame(self, header, message):
        try:
            eh = self.reg.header_encoder.encode(header)
            mb = self.reg.get_encoder(message.message_id).encode(header, message)
            crc = self.reg.checksum_calculator.calculate(eh.checksum_data + mb)
            return bytes(eh.header_bytes + mb + crc)
        except Exception:  # noqa: BLE001
            return None

    # ------------------------------------------------------------------ API calls as separate tasks
    def _spawn(self, coro):
        t = self.loop.create_task(coro)
        self.api_tasks.append(t)
        return t

    async def _api_send(self, sid, kind, policy):
        S = self.S
        retries, life = POLICIES[policy]
        # the API layers pass the package's module-level policy objects: use the very same objects (a policy that has drifted
        # from its documented value - e.g. mutated by an earlier run in this process - then shows up in the monitors, which
        # judge against the documented values recorded with the acceptance)
        pol = {"idem": S.RETRY_IDEMPOTENT, "nonidem": S.RETRY_NON_IDEMPOTENT, "conn": S.RETRY_CONNECTED}.get(policy)
        if pol is None:
            pol = S.RetryPolicy(max_retries=retries, max_lifetime=life * TICK)
        if Env.policy_baseline is None:
            Env.policy_baseline = {k: (p.max_retries, p.max_lifetime) for k, p in
                                   (("idem", S.RETRY_IDEMPOTENT), ("nonidem", S.RETRY_NON_IDEMPOTENT), ("conn", S.RETRY_CONNECTED))}
            for k, (r, l) in Env.policy_baseline.items():
                if (r, round(l / TICK)) != POLICIES[k]:   # (the three package policies only)
                    raise RuntimeError("harness policy table %r differs from the package constants %r" % (POLICIES, Env.policy_baseline))
        try:
            msg = self.make_message(sid, kind)
        except Exception as e:  # noqa: BLE001
            raise RuntimeError("harness cannot build message %r/%r: %r" % (sid, kind, e)) from e
        self.rec.msg_sid[id(msg)] = sid
        self.rec.keep.append(msg)
        now = ticks(self.loop.time())
        self.rec.emit("apiSend", sid, now, now + life, retries, 1 if kind == "ok" else 0)
        try:
            if sid % 4 == 3 and kind == "ok":
                # the second public entry point: the caller supplies the header (built as send() would build it)
                enc = self.reg.get_encoder(msg.message_id)
                hdr = self.reg.header_factory.create_from_message(msg, enc.size(msg))
                await self.sock.send_with_header(hdr, msg, pol)
            else:
                await self.sock.send(msg, pol)
        except S.NotOpenError:
            self.rec.emit("reject", sid, "notOpen", ticks(self.loop.time()))
        except S.QueueOverflowError:
            self.rec.emit("reject", sid, "overflow", ticks(self.loop.time()))
        except Exception as e:  # noqa: BLE001
            self.rec.emit("sendRaised", sid, type(e).__name__, ticks(self.loop.time()), kind)

    async def _api_open(self):
        self.rec.emit("apiOpen", ticks(self.loop.time()))
        try:
            await self.sock.open_socket()
        except Exception as e:  # noqa: BLE001
            self.rec.emit("apiRaised", "open_socket", type(e).__name__, ticks(self.loop.time()))

    async def _api_close(self):
        self.rec.emit("apiClose", ticks(self.loop.time()))
        try:
            await self.sock.close()
        except Exception as e:  # noqa: BLE001
            self.rec.emit("apiRaised", "close", type(e).__name__, ticks(self.loop.time()))
            return
        self.rec.emit("apiCloseDone", ticks(self.loop.time()))

    async def _api_reset(self):
        self.rec.emit("apiReset", ticks(self.loop.time()))
        try:
            await self.sock.reset_connection()
        except Exception as e:  # noqa: BLE001
            self.rec.emit("apiRaised", "reset_connection", type(e).__name__, ticks(self.loop.time()))

    # ------------------------------------------------------------------ peer frames
    def status_frame(self):
        if self.gen == 4:
            return bytes.fromhex("555580b0012d0000f4cf")  # AC status request form, valid CRC
        import pyairtouch.at5.comms.hdr as hdr5
        h = hdr5.At5Header(to_address=0xB0, from_address=0x80, packet_id=1, message_id=0xC0, message_length=8)
        eh = hdr5.HeaderEncoder().encode(h)
        payload = bytes.fromhex("2300000000000000")
        crc = self.reg.checksum_calculator.calculate(eh.checksum_data + payload)
        return bytes(eh.header_bytes + payload + crc)

    def frame(self, mid, payload):
        """a frame intact on the wire (prefix, addresses, length, CRC) with the given payload"""
        if self.gen == 4:
            import pyairtouch.at4.comms.hdr as H
            h = H.At4Header(to_address=0xB0, from_address=0x80, packet_id=1, message_id=mid, message_length=len(payload))
        else:
            import pyairtouch.at5.comms.hdr as H
            h = H.At5Header(to_address=0xB0, from_address=0x80, packet_id=1, message_id=mid, message_length=len(payload))
        eh = self.reg.header_encoder.encode(h)
        return bytes(eh.header_bytes) + payload + bytes(self.reg.checksum_calculator.calculate(eh.checksum_data + payload))

    def undecodable_frame(self, what):
        """intact frames whose CONTENT the decoders refuse, each in its own way: a name that is not UTF-8 (UnicodeDecodeError, a
        ValueError), an undefined enumeration value (ValueError), a sub-message shorter than its fixed part (struct.error / IndexError)"""
        if what == "badtext":
            return self.frame(0x1F, bytes.fromhex("ff12") + bytes([0]) + b"\xff\xfeabcdef") if self.gen == 4 else \
                self.frame(0x1F, bytes.fromhex("ff13") + bytes([0, 3, 0xFF, 0xFE, 0x41]))
        if what == "badenum":
            # AT4 AC status: mode nibble 0x0F; AT5 AC status: fan speed nibble 7 (both undefined)
            return self.frame(0x2D, bytes([0x80, 0xF1, 0x3F, 0x80, 0x00, 0x00, 0x00, 0x00])) if self.gen == 4 else \
                self.frame(0xC0, bytes.fromhex("2300000000080001") + bytes([0x10, 0x47, 0x80, 0x00, 0x02, 0xBC, 0x00, 0x00]))
        # short
        return self.frame(0x1F, bytes.fromhex("ff")) if self.gen == 4 else self.frame(0xC0, bytes.fromhex("230000"))

    def latest(self):
        return self.net.conns[-1] if self.net.conns else None

    # ------------------------------------------------------------------ script interpreter
    async def run_script(self, script):
        net = self.net
        for op in script:
            k = op[0]
            if k == "open":
                # discipline (C15 hypothesis): open()/close() are not issued while another close() is in progress
                for t in self.close_tasks:
                    if not t.done():
                        await t
                self._spawn(self._api_open())
            elif k == "close":
                for t in self.close_tasks:
                    if not t.done():
                        await t
                self.close_tasks.append(self._spawn(self._api_close()))
            elif k == "reset":
                self._spawn(self._api_reset())
            elif k == "send":
                _, sid, kind, policy = op
                self.send_tasks[sid] = self._spawn(self._api_send(sid, kind, policy))
            elif k == "cancel":
                # the caller of send() gives up (a timeout around the call): its task is cancelled wherever it is
                t = self.send_tasks.get(op[1])
                if t is not None and not t.done():
                    # the recorder's name of the cancelled task (None: it has not run a block yet) ties the cancellation to the
                    # task identity used in the step records (sockobs.validation_lines -> `vl cancel <hid>`)
                    self.rec.emit("apiCancel", op[1], self.rec.names.get(t), ticks(self.loop.time()))
                    t.cancel()
            elif k == "adv":
                await asyncio.sleep(op[1] * TICK)
            elif k == "turn":
                for _ in range(op[1]):
                    await asyncio.sleep(0)
            elif k == "net":
                net.mode = op[1]
                self.rec.emit("envNet", op[1], ticks(self.loop.time()))
            elif k == "lat":
                net.latency = op[1] * TICK
            elif k == "failw":
                c = self.latest()
                if c is not None and not c.conn_lost:
                    c.fail_writes = bool(op[1])
                    if len(op) > 2:
                        c.fail_kind = op[2]
                    else:
                        self.fail_counter += 1          # rotate through the error kinds a failing send() can report
                        c.fail_kind = self.fail_counter
                    self.rec.emit("envFailWrites", c.cid, 1 if op[1] else 0, ticks(self.loop.time()))
            elif k == "block":
                c = self.latest()
                if c is not None and not c.conn_lost:
                    if op[1]:
                        c.block_writes()
                    else:
                        c.unblock_writes()
                    self.rec.emit("envPause", c.cid, 1 if op[1] else 0, ticks(self.loop.time()))
            elif k == "peer":
                c = self.latest()
                what = op[1]
                if c is None or c.conn_lost:
                    continue
                if what == "status":
                    self.rec.emit("envPeerSend", c.cid, "status", ticks(self.loop.time()))
                    c.peer_send(self.status_frame())
                elif what == "garbage":
                    self.rec.emit("envPeerSend", c.cid, "garbage", ticks(self.loop.time()))
                    c.peer_send(bytes([0x13, 0x37] * 16))
                elif what == "badcrc":
                    self.rec.emit("envPeerSend", c.cid, "badcrc", ticks(self.loop.time()))
                    f = bytearray(self.status_frame())
                    f[-1] ^= 0x01
                    c.peer_send(bytes(f))
                elif what in ("badtext", "badenum", "short"):
                    self.rec.emit("envPeerSend", c.cid, what, ticks(self.loop.time()))
                    c.peer_send(self.undecodable_frame(what))
                elif what == "trunc":
                    self.rec.emit("envPeerSend", c.cid, "trunc", ticks(self.loop.time()))
                    c.peer_send(self.status_frame()[:-3])
                    c.peer_eof()      # the peer dies in the middle of a frame
                elif what == "eof":
                    c.peer_eof()
                elif what == "reset":
                    if c.eof_sent:
                        # a selector transport stops watching the socket for reading once EOF was received and the
                        # protocol keeps the connection open (StreamReaderProtocol does): a later RST is only noticed
                        # by the next write, which fails
                        if not c.fail_writes:
                            c.fail_writes = True
                            self.rec.emit("envFailWrites", c.cid, 1, ticks(self.loop.time()))
                    else:
                        c.peer_reset()
                elif what in ("timeout", "unreach"):
                    # the path to the console is gone: recv() fails with ETIMEDOUT / EHOSTUNREACH (OSErrors outside ConnectionError)
                    if c.eof_sent:
                        if not c.fail_writes:
                            c.fail_writes = True
                            c.fail_kind = 2 if what == "timeout" else 3
                            self.rec.emit("envFailWrites", c.cid, 1, ticks(self.loop.time()))
                    else:
                        c.peer_reset(2 if what == "timeout" else 3)
                # network events are processed one per loop iteration by a selector loop: task wake-ups
                # scheduled by one event run before the next event is looked at
                await asyncio.sleep(0)
            elif k == "peerbytes":
                c = self.latest()
                if c is not None and not c.conn_lost:
                    c.peer_send(bytes.fromhex(op[1]))
            elif k == "peerecho":
                # the peer returns everything the client has written on this connection, one bit (op[1]) damaged on the way
                c = self.latest()
                if c is not None and not c.conn_lost:
                    data = bytearray(getattr(c, "written_all", b""))
                    if len(data) > op[1] // 8:
                        data[op[1] // 8] ^= 1 << (op[1] % 8)
                        c.peer_send(bytes(data))
            elif k == "subraise":
                if op[1] == "conn":
                    self.raise_conn_sub = bool(op[2])
                else:
                    self.raise_msg_sub = bool(op[2])
            elif k == "msgsub":
                # the application's message subscriber comes and goes
                if int(op[1]):
                    self.sock.subscribe_on_message_received(self.msg_sub)
                else:
                    self.sock.unsubcribe_on_message_received(self.msg_sub)
            elif k == "msgsub2":
                # a second message subscriber that needs a few loop passes per frame (I/O of its own); what it has HANDLED, in the order it
                # finished, is reported as `handled2` (a frame handed over while the previous one is still being handled shows as overlap)
                turns = int(op[1])
                env = self
                env.handled2 = []
                env.busy2 = 0

                async def sub2(header, message, turns=turns):
                    from canon import canon
                    if env.busy2:
                        env.handled2.append("OVERLAP")
                    env.busy2 += 1
                    try:
                        for _ in range(turns):
                            await asyncio.sleep(0)
                        env.handled2.append(canon(header) + "|" + canon(message))
                    finally:
                        env.busy2 -= 1
                self.msg_sub2 = sub2
                self.sock.subscribe_on_message_received(sub2)
            elif k == "subslow":
                self.conn_sub_slow = int(op[1]) if len(op) < 3 else (int(op[1]), int(op[2]))
            elif k == "subsend":
                _, sid, kind, policy = op
                self.conn_sub_sends.append((sid, kind, policy))
            elif k == "failnext":
                net.fail_first_write = net.fail_first_once = True       # only the next ONE connection is half-open
            elif k == "failfirst":
                net.fail_first_write = bool(op[1])
            elif k == "blockfirst":
                net.block_first = bool(op[1])
            elif k == "heal":
                await self._heal()
            else:
                raise ValueError("unknown op %r" % (op,))

    async def _heal(self):
        """The network behaves again: accept immediately, no faults; then probe both directions."""
        net = self.net
        net.mode = "accept"
        net.latency = 0.0
        net.fail_first_write = False
        net.block_first = False
        self.conn_sub_sends = []
        self.conn_sub_slow = 0
        self.raise_conn_sub = False
        self.raise_msg_sub = False
        for c in net.conns:
            if c.fail_writes:
                c.fail_writes = False
                if not c.conn_lost:
                    self.rec.emit("envFailWrites", c.cid, 0, ticks(self.loop.time()))
            if c.paused:
                lost = c.conn_lost
                c.unblock_writes()
                if not lost:
                    self.rec.emit("envPause", c.cid, 0, ticks(self.loop.time()))
        self.rec.emit("heal", ticks(self.loop.time()))
        await asyncio.sleep(24 * TICK)   # > retry delay (2 s)
        n0 = len(self.delivered)
        for _ in range(3):
            c = self.latest()
            if c is not None and not c.conn_lost:
                self.rec.emit("envPeerSend", c.cid, "probe", ticks(self.loop.time()))
                c.peer_send(self.status_frame())
            await asyncio.sleep(24 * TICK)
            if len(self.delivered) > n0:
                break
        self.rec.emit("probeDelivered", 1 if len(self.delivered) > n0 else 0, ticks(self.loop.time()))
        self._spawn(self._api_send(9999, "ok", "idem"))
        await asyncio.sleep(24 * TICK)

    def run(self, script, idle_ticks=0):
        loop = self.loop
        asyncio.set_event_loop(loop)
        try:
            main = loop.create_task(self._main(script, idle_ticks))
            loop.run_until_complete(main)
        finally:
            asyncio.set_event_loop(None)
        return self.result()

    async def _main(self, script, idle_ticks):
        await self.run_script(script)
        if idle_ticks:
            await asyncio.sleep(idle_ticks * TICK)
        # census: what is still alive
        me = asyncio.current_task()
        tasks = [t for t in asyncio.all_tasks(self.loop) if t is not me and not t.done()]
        timers = [h for h in self.loop.pending_timers()]
        self.census = {
            "t": ticks(self.loop.time()),
            "tasks": sorted(self.rec.name(t) for t in tasks),
            "timers": len(timers),
            "open_conns": [c.cid for c in self.net.conns if not c.closing],
            "leaked": [c.cid for c in self.net.conns if not c.closing and not (
                self.sock._writer is not None and self.sock._writer.transport is c)],
            "unhandled": [str(c.get("message")) for c in self.loop.unhandled],
        }
        for t in self.api_tasks:
            if t.done() and not t.cancelled() and t.exception() is not None:
                raise RuntimeError("harness API task failed: %r" % (t.exception(),))
        for t in tasks:
            t.cancel()
        for _ in range(4):
            await asyncio.sleep(0)

    def result(self):
        lg = logging.getLogger("pyairtouch.comms.socket")
        lg.removeHandler(self.drop_handler)
        self.loop.close()
        return {"steps": self.rec.steps, "census": self.census, "delivered": list(self.delivered_canon), "handled2": list(getattr(self, "handled2", [])),
                "unhandled": [str(c.get("message")) + ":" + type(c.get("exception")).__name__ for c in self.loop.unhandled]}


def run_script(script, gen=4, idle_ticks=0):
    import zlib
    h = zlib.crc32(repr([tuple(op) for op in script]).encode())
    Env.debug_log = bool(h & 1)
    env = Env(gen)
    env.net.kind_offset = (h >> 3) % 6
    return env.run(script, idle_ticks)


if __name__ == "__main__":
    import json
    sys.path.insert(0, "/repo")
    logging.basicConfig(level=logging.CRITICAL)
    demo = [("net", "refuse"), ("open",), ("adv", 4), ("send", 1, "ok", "idem"), ("send", 2, "ok", "idem"),
            ("send", 3, "ok", "idem"), ("net", "accept"), ("adv", 40), ("peer", "status"), ("adv", 8), ("close",), ("adv", 8)]
    r = run_script(demo)
    for s in r["steps"]:
        if s["events"] or True:
            print(s["task"], s["t"], s["events"], s["snap"], "DONE" if s["done"] else "")
    print(r["census"])
