"""Structured payload generators, part 2: the timer messages of both generations
(AT4 0x36 / 0x37 / 0x1FFF20, AT5 0x1FFF49 / 0xC032 / 0xC033).

fn(rng) -> (payload_bytes, hp_list); hp = [message_length] (top/ext) or
[non_repeat_length, repeat_length, repeat_count] (cs).
"""
import itertools

EDGE = [0x00, 0x01, 0x17, 0x18, 0x1F, 0x20, 0x3B, 0x3C, 0x3F, 0x40, 0x7F, 0x80, 0x9F, 0xA0, 0xBF, 0xC0, 0xFF]


def _byte(rng):
    return rng.choice(EDGE) if rng.random() < 0.4 else rng.randrange(256)


def _timer_state(rng):
    """two bytes: disabled bit 7 + hour (5 bits, sometimes with the unused bits 5/6 set), minute"""
    r = rng.random()
    if r < 0.6:
        b1 = (0x80 if rng.random() < 0.5 else 0) | rng.randrange(24)
        mi = rng.randrange(60)
    elif r < 0.8:
        b1 = (0x80 if rng.random() < 0.5 else 0) | rng.randrange(32) | rng.choice([0, 0x20, 0x40, 0x60])
        mi = rng.randrange(64) | rng.choice([0, 0x40, 0x80, 0xC0])
    else:
        b1, mi = _byte(rng), _byte(rng)
    return bytes([b1, mi])


def _padding(rng, n=4):
    if rng.random() < 0.8:
        return bytes(n)
    return bytes(_byte(rng) for _ in range(n))


# ------------------------------------------------------------------ AT4 0x36 / 0x37 (positional, 8-byte slots)
def _at4_timer(rng):
    count = rng.choice([0, 1, 2, 3, 4, 4, 4, 4, 5, 6, 8])
    data = b"".join(_timer_state(rng) + _timer_state(rng) + _padding(rng) for _ in range(count))
    ln = 8 * count
    r = rng.random()
    if r < 0.55:
        pass
    elif r < 0.65 and count:
        # last slot cut inside / just after its four meaningful bytes (padding is never read)
        data = data[: 8 * (count - 1) + rng.choice([0, 1, 2, 3, 4, 5, 7])]
    elif r < 0.75:
        data += bytes(_byte(rng) for _ in range(rng.choice([1, 2, 8, 9])))   # trailing bytes stay in `remaining`
    elif r < 0.83:
        ln += rng.choice([1, 2, 4, 7])                                        # not a multiple of 8 -> DecodeError
    elif r < 0.90:
        ln += 8 * rng.choice([1, 2])                                          # announces more slots than supplied
    elif r < 0.96 and count:
        ln -= 8 * rng.randint(1, count)                                       # announces fewer (possibly 0 = request)
    else:
        data = data[: rng.randint(0, len(data))]
    return data, [ln]


# ------------------------------------------------------------------ AT5 0xC032 / 0xC033 (9-byte records, stride from header)
def _at5_record(rng, stride):
    ac = rng.choice([0, 1, 2, 3, 7, 0xFF]) if rng.random() < 0.7 else rng.randrange(256)
    rec = bytes([ac]) + _timer_state(rng) + _timer_state(rng) + _padding(rng)
    if stride >= 9:
        return rec + bytes(_byte(rng) for _ in range(stride - 9))
    return rec[:stride]


_SWEEP = itertools.cycle([(base, pos, v)
                          for base in (bytes(9), bytes([0xFF] * 9), bytes([0x03, 0x97, 0x3B, 0x0C, 0x1E, 0, 0, 0, 0]))
                          for pos in range(9) for v in range(256)])


def _at5_timer(rng):
    r = rng.random()
    if r < 0.30:
        # every byte value at every position of a single record (the generic sweep of codeccheck uses
        # the record size from the MODULES table, which is not 9 for C032)
        base, pos, v = next(_SWEEP)
        b = bytearray(base)
        b[pos] = v
        return bytes(b), [0, 9, 1]
    count = rng.choice([0, 1, 1, 2, 2, 3, 4, 8])
    stride = 9 + rng.choice([0, 0, 0, 0, 1, 3, 7])
    nr = rng.choice([0, 0, 0, 2, 5])                    # ignored by the decoder
    if r < 0.38:
        stride = rng.choice([0, 1, 5, 8])               # 0 with count 0 = request; otherwise DecodeError
        if rng.random() < 0.4:
            count = 0
    data = b"".join(_at5_record(rng, stride) for _ in range(count))
    r2 = rng.random()
    if r2 < 0.12 and count and stride >= 9:
        # cut the last record: 5..8 bytes still decode, 1..4 -> struct.error, 0 -> IndexError
        data = data[: stride * (count - 1) + rng.choice([0, 1, 2, 3, 4, 5, 6, 8])]
    elif r2 < 0.22:
        data += bytes(_byte(rng) for _ in range(rng.choice([1, 4, 9])))
    elif r2 < 0.28:
        count += rng.choice([1, 2])                     # header announces more records than supplied
    elif r2 < 0.32:
        data = data[: rng.randint(0, len(data))]
    return data, [nr, stride, count]


# ------------------------------------------------------------------ quick timer (4 bytes: ac, type, hours, minutes)
def _quick_timer(rng):
    ac = rng.choice([0, 1, 2, 3]) if rng.random() < 0.6 else _byte(rng)
    r = rng.random()
    ty = rng.choice([0, 1]) if r < 0.85 else _byte(rng)
    r = rng.random()
    if r < 0.55:
        h, mi = rng.randrange(24), rng.randrange(60)
    elif r < 0.75:
        h, mi = rng.choice([23, 24, 25, 47, 48, 255]), rng.choice([0, 59, 60, 61, 119, 120, 255])
    else:
        h, mi = _byte(rng), _byte(rng)
    data = bytes([ac, ty, h, mi])
    ln = 4
    r = rng.random()
    if r < 0.70:
        pass
    elif r < 0.80:
        data += bytes(_byte(rng) for _ in range(rng.choice([1, 2, 4, 8])))
    elif r < 0.90:
        data = data[: rng.randint(0, 3)]               # struct.error
    else:
        ln = rng.choice([0, 1, 3, 5, 8, 255])           # the header length is not consulted
    return data, [ln]


GENERATORS = {
    (4, "36"): _at4_timer,
    (4, "37"): _at4_timer,
    (4, "FF20"): _quick_timer,
    (5, "FF49"): _quick_timer,
    (5, "C032"): _at5_timer,
    (5, "C033"): _at5_timer,
}
