#!/usr/bin/env python3
"""Writes MANIFEST.json from the per-property table below (kept in one place so it stays consistent)."""
import json
import os

VERIF = os.path.dirname(os.path.dirname(os.path.abspath(__file__)))

LEVEL_NOTE = ("Trusted: Lean 4.33 kernel; axioms propext, Classical.choice, Quot.sound only (audited by #print axioms "
              "on every run; no sorry/native_decide/bv_decide/own axioms); the translator translate/*.py that regenerates "
              "lean/PyAirtouch/Gen from /repo; the correspondence harness (canonical forms, generators, virtual clock, "
              "in-memory transport); the hand-written Model is *modelled* and tied to the code by the correspondence run; "
              "Spec is my reading of the vendor documents and the property text. ")

CLAIMED = {
    "C06": dict(
        text="Theorems in lean/PyAirtouch/Props/C06.lean, for every byte string: the table in the source (regenerated into "
             "Gen on every run) is the bitwise reflected-0xA001 table, calculate() = CRC-16/MODBUS high byte first, validate() "
             "accepts exactly that value. The model of calculate/validate is tied to the code by an exhaustive comparison on all "
             "0..2-byte strings (every table step) plus 3-byte/random strings; every implementation output is also judged by the "
             "Spec-only oracle, which yields the concrete failing input when a proof or the correspondence breaks.",
        design_ref="DESIGN.md section 7, C06",
        technique="Lean 4 proof (induction on length + kernel-evaluated table lemma), Gen regenerated from source, exhaustive model/implementation correspondence",
        note="Reception-path clauses (damaged frame not delivered, reconnect afterwards) are covered by the frame and socket models."),
}

SOCK_NOTE = ("Socket layer: the real AirTouchSocket runs on a virtual-clock asyncio loop over an in-memory transport (modelled on "
             "asyncio's selector transport); asyncio task scheduling is covered by quantifying the theorems over every label "
             "sequence (every schedule and every environment answer), of which asyncio's schedules are a subset. ")

CLAIMED["C16"] = dict(
    text="Theorems in Props/C16.lean over the Lean coroutine model of AirTouchSocket (Model/Sock.lean), for every reachable state under "
         "every schedule: entries never re-queued by the retry path never exceed the capacity regenerated from the source "
         "(C16_fresh_bound), hence <= 10 whenever nothing was re-queued (C16_bound, the property's quantifier); overflow is explicit "
         "and leaves the held entries untouched (C16_overflow_explicit); not-open holds nothing (C16_not_open); expired entries are "
         "purged before the capacity test (C16_accept_when_room, C16_purged_are_expired_only). The model is tied to the code by "
         "replaying every atomic block of recorded runs of the real socket against Sock.step (events, private-state snapshot, "
         "termination), and the recorded accept/overflow/not-open decisions and frames are judged by the Spec bounded-FIFO monitor.",
    design_ref="DESIGN.md section 7, C16",
    technique="Lean 4 proof (invariant by induction over all schedules of a coroutine model) + block-by-block trace validation of the model against the real socket + Spec monitor on recorded runs",
    note=SOCK_NOTE)
CLAIMED["C02"] = dict(
    text="Theorems in Props/C02.lean for every label sequence with distinct send ids: every write attempt (wire, dead write, write "
         "fault) of a message happens strictly before its expiry (C02_never_at_or_after_expiry) and a message is attempted at most "
         "1 + its policy's retries times (C02_attempts_bounded) - stated with the very Spec monitors that judge recordings of the "
         "real socket. Boundary scripts put a connection one tick before / at / after expiry and a write fault on the n-th write; "
         "the model is tied to the code by block-by-block trace validation. Props/C02Retry.lean (last clause): no write is ever attempted on a "
         "transport that is not live (C02_no_write_on_lost_connection: the trace contains no deadWrite), the retries a message has used up are bounded by "
         "the number of transports that went down (C02_attempts_need_faults), hence in histories where a transport goes down only through one injected "
         "fault no message with retries is dropped for max-retries (C02_single_fault_keeps_retryable, C02_kept_across_single_fault - the Spec monitor; the "
         "unrestricted form is refuted by a proved cascade of late wake-ups, C02_single_fault_cascade), and a re-queued entry is at the head of the queue and "
         "stays ahead of every entry never attempted (C02_requeued_first, C02_requeued_prefix). Props/C02At4, C02At5: over the API models, for every state, call "
         "and argument, the retry policy is NON_IDEMPOTENT exactly for the accumulating commands and every own-initiative request (handshake, refresh, "
         "heartbeat, poll, error-info) is sent with the CONNECTED policy; on the real API objects every sent message's policy is judged against the "
         "vendor reading of its frame (toggle / change / increase / decrease => no retry). Full stack (implementation side only: the model's atomic "
         "blocks are those of the default task factory): a call held up on a congested link that is then lost, under the default and the eager "
         "task factory - at most 1 + retries transmissions, each on another connection, and a retry when the held-up write failed.",
    design_ref="DESIGN.md section 7, C02",
    technique="Lean 4 proof (trace invariants over all schedules) + trace validation + Spec monitors on recorded runs incl. expiry-boundary scripts",
    note=SOCK_NOTE)
CLAIMED["C01"] = dict(
    text="Theorems in Props/C01.lean (and C02/C16) for every label sequence with distinct send ids: nothing reaches the wire that was "
         "not accepted (C01_wire_only_submitted, no unknown or torn frame), at most 1 + retries attempts, never after expiry. Recorded "
         "runs of the real socket (outage, steady incl. > 256 sends, fault families; AT4 and AT5 registries) are judged by the Spec "
         "monitors wireOnlySubmitted / onceInOrderWithoutFault / deliveredWhenPossible and every block is replayed against the model. "
         "Props/C01Order.lean: in histories without connection loss / reset / close / failed write every message is written at most "
         "once and in acceptance order (C01_once_in_order_without_fault - the Spec monitor itself; a first version of the monitor "
         "was refuted by a proved counterexample and corrected), nothing stays queued while connected unless a task is still going "
         "to drain (C01_nothing_pending_when_idle_connected, with tightness examples), frames are written without an intervening "
         "suspension (C01_frames_contiguous). Props/C01Loss.lean: no accepted message ever disappears without cause - every drop in the trace has a true "
         "reason (C01_drops_justified: the Spec monitor dropsJustified on every reachable trace), every accepted id is still queued, has a write attempt or "
         "was dropped (C01_accounted_strong), hence once the queue is empty - in particular in every healed state - each accepted message was written, failed a "
         "write or was dropped for a true reason (C01_no_silent_loss_quiescent / _healed; the Spec monitor noSilentLoss with the heal marker inserted anywhere). Liveness of 'as soon as' (suspended tasks do resume) is decided on recorded runs by "
         "the monitor deliveredWhenPossible only (partial).",
    design_ref="DESIGN.md section 7, C01",
    technique="Lean 4 proof (trace invariants over all schedules) + trace validation + Spec monitors on recorded runs",
    note=SOCK_NOTE)

CLAIMED["C07"] = dict(
    text="Theorems in Props/C07.lean for every reachable state of the coroutine model under every schedule and every environment "
         "behaviour: every transport the client holds open is its current reader/writer (C07_held_open_is_current), so it never "
         "holds two (C07_at_most_one_connection, and C07_trace_single for the Spec's own trace monitor), every other transport ever "
         "opened is closing or closed (C07_abandoned_are_closed), at most one task is inside open_connection. Props/C07Heal.lean - the client can "
         "never be wedged: from EVERY reachable open state (histories respecting the close() discipline and in which a reader is told EOF only on a "
         "transport not lost with an exception - both hypotheses are necessary, the two wedges without them are proved) there EXISTS a run of benign "
         "labels only (pending connection_lost callbacks, wake-ups of tasks blocked on dead transports, the environment stops misbehaving, a successful "
         "connect, at most RETRY_DELAY of waiting) that ends connected on a healthy transport with a reader waiting on it, nothing else unfinished and "
         "the queue drained, every queued entry accounted for (C07_never_wedges, C07_never_wedges_fate, C07_progress_possible, C07_reconnect_pending). "
         "That every actual run heals within bounded time (liveness under asyncio's fair scheduling) is decided on recorded fault scripts of the real "
         "socket by the Spec monitor `healed`. Every recorded run is replayed block by block against the model.",
    design_ref="DESIGN.md section 7, C07",
    technique="Lean 4 proof (inductive invariant over all interleavings) + trace validation + Spec monitors on recorded fault scripts",
    note=SOCK_NOTE + "never_wedges is a possibility (AG EF) theorem: no reachable state is a dead end; that the scheduler actually takes the steps is checked on recorded runs.")
CLAIMED["C15"] = dict(
    text="Theorems in Props/C15.lean: in every state reached (under every schedule) after close() has returned and before a later "
         "open, the socket is closed, disconnected, not connecting, holds no live transport and every background task has finished "
         "(C15_closed_state); from such a state no label produces a connection attempt, an opened transport, a frame, an accepted "
         "send, a delivery or a connected notification, and sends are refused with not-open leaving the queue unchanged "
         "(C15_quiet_after_close, C15_no_activity_after_close, C15_send_after_close, C15_quiet_run); the Spec's own monitor holds on "
         "the model's trace (C15_trace_monitor). Hypothesis: open()/close() are not issued while another close() is in progress "
         "(a second concurrent close() returns at once - proved counterexample closedNow_needs_discipline, see DESIGN.md). Recorded "
         "runs (close at an arbitrary point of outage/steady/fault scripts, 1000 s idle, census of tasks, timers and transports, "
         "optional re-open with probes) are judged by the monitor and replayed against the model. "
         "Props/C15Session.lean (model Model/Session.lean: handshake handlers suspended in an application callback across shutdown() and a "
         "later init()): after shutdown() every suspended handler is stale for ever and its release is inert, and any later op sequence "
         "gives op by op the outputs of a fresh object (C15S_reinit_like_fresh, simulation + induction over the ops); the state-only "
         "re-check of the code before /repo ced1c59 is refuted (C15S_old_guard_refuted); tie: the real AirTouch 4 / 5 objects over a stub "
         "socket, op by op (harness/sessharness.py).",
    design_ref="DESIGN.md section 7, C15",
    technique="Lean 4 proof (closed-state invariant + one-step quietness over all schedules) + trace validation + census monitor on recorded runs",
    note=SOCK_NOTE + "API level: shutdown() of the real AirTouch4 / AirTouch5 object over the real socket is issued k loop passes after EVERY network "
         "event and at the timer instants of nine console scenarios (plain, slow console, connect latency, back-off, silence at a handshake step, pending "
         "commands with a link fault, heartbeat period, dead link) and judged directly against the clauses of the statement, including a later init() "
         "whose model must equal a fresh object's; this found the interrupted-handshake defect (repaired). The API models treat message handlers as "
         "atomic, so that interleaving is covered on the implementation only.")
CLAIMED["C08"] = dict(
    text="Theorems in Props/C08.lean over the timed model of HeartbeatManager (Model/Heartbeat.lean), for every label sequence and every "
         "(interval, timeout): the deadline is always exactly `timeout` after the latest arm point (start, consumed response, reset "
         "done, expiry while down) and time never passes it (C08_deadline_never_missed, C08_silence_detected*), on expiry the "
         "connection is reset iff it is up (C08_expiry_enabled, C08_reset_at_deadline), a reset only ever happens after a full "
         "timeout without a response (C08_reset_only_after_full_silence, C08_reset_origin), requests are emitted exactly every "
         "interval (C08_period), and if every heartbeat is answered within timeout - interval no reset ever occurs "
         "(C08_no_false_reset; tight by example). The model is tied to the code by simulating recorded scenarios of the real "
         "HeartbeatManager (virtual clock, stub socket) and comparing event for event; every recording is judged by the Spec monitor c08.",
    design_ref="DESIGN.md section 7, C08",
    technique="Lean 4 proof (timed-automaton invariants, simulation against a monitor) + event-for-event correspondence of the model's simulation with the real HeartbeatManager + Spec monitor",
    note="Assumes timers fire when due (the model's `advance` guard); scenarios whose inputs coincide exactly with a deadline are skipped (order unspecified). "
         "API-level wiring (which frame is the heartbeat, what counts as its response, who resets): the real AirTouch4 / AirTouch5 objects over the real socket "
         "against a scripted console with per-heartbeat answer patterns, unsolicited traffic and console-side closes, judged by the same Spec monitor with the "
         "default 300 s / 330 s configuration.")

CODEC_NOTE = ("Codec layer: enums, constants, struct formats and registries are regenerated from the source on every run (Gen); the "
              "message models are hand-written over them and compared with the real decoders / encoders on every byte value at every "
              "record position plus thousands of grammar-generated payloads per module (22 modules), and on whole frames through the real "
              "send path and the real _read_one_message. Float steps of the temperature conversions are bridged by those exhaustive runs. ")

CLAIMED["C03"] = dict(
    text="Theorems in Props/C03.lean and Props/C03Frame.lean: for each of the 22 message modules and every well-formed message "
         "(any record count, any field values in their domains, any names) the bytes produced equal the length computed in advance "
         "and decoding them with the header the send path builds returns the same message with nothing left; for whole frames "
         "(C03_g4/g5_frame_roundtrip): the frame written by send() for any packet id is delivered by the receive path with an equal "
         "header and message, leaving exactly the following bytes; nested lengths (2 + sub, 8 + nr + count*stride) and the AT5 outer "
         "lengths agree. On the implementation the round trip of every well-formed decoded message and of whole frames is judged "
         "directly (this found and led to the repair of the 0.0 degC truthiness bugs and the AT5 zone-names size() bug).",
    design_ref="DESIGN.md section 7, C03 and section 12",
    technique="Lean 4 proof (round trip by induction over records, omega for bit fields; frame theorem over a generic framing layer) + exhaustive/differential model-implementation correspondence + direct round-trip judgement on the implementation",
    note=CODEC_NOTE)
CLAIMED["C13"] = dict(
    text="Theorems in Props/C13.lean: for the read loop model (readexactly-driven parseOne/feed, instantiated with the real registries of "
         "both generations) feeding ANY list of segments one by one yields the same deliveries, in the same order, and the same final "
         "state as feeding their concatenation (C13_feedAll_eq_feed_flatten), hence any two segmentations of a stream deliver the same "
         "messages once each in order (C13_g4/g5_any_two_segmentations). Tie: frame streams from the real send path cut at every single "
         "point, every pair of points (short streams), random multi-cuts and byte-by-byte with 0..60 loop turns between segments, fed "
         "to the real socket / StreamReader; deliveries compared with the unsegmented run and with the model's parse.",
    design_ref="DESIGN.md section 7, C13",
    technique="Lean 4 proof (prefix stability of the frame parser, induction over the segment list) + exhaustive single/double cut segmentation runs on the real socket",
    note=CODEC_NOTE)
CLAIMED["C17"] = dict(
    text="Theorems in Props/C17.lean: for EVERY unregistered type byte, 0x1F sub-id and 0xC0 sub-type and every payload the result is an "
         "unsupported message carrying the payload unchanged with nothing left over; a message is delivered only if header, check value "
         "and the registered decoder accepted exactly the declared payload (parseOne total: otherwise needMore / reject); a rejected frame "
         "or any exception of the read path makes the read task reset the connection (socket model). Tie and oracle: whole-frame "
         "differential incl. all mutation classes against the real _read_one_message; fixed-layout status payloads whose independent "
         "vendor reading has only defined values (all strides >= known) must be decoded by the real decoder, every time; the real socket "
         "fed with garbage / bad CRC / truncated frames must not let any exception escape a task, must reconnect and deliver a later frame.",
    design_ref="DESIGN.md section 7, C17",
    technique="Lean 4 proof (registry dispatch for all ids, parser soundness) + mutation differential on whole frames + vendor-reader oracle + fault scripts on the real socket",
    note=CODEC_NOTE + SOCK_NOTE)
CLAIMED["C18"] = dict(
    text="Theorems in Props/C18.lean: for EVERY datagram the model's datagram_received adds an entry iff the datagram is in the vendor "
         "response format (Spec.Discovery.readResponse, written from the vendor documents), and then with exactly its host, serial, id "
         "and name (commas in the AirTouch 5 name preserved); the request echo, wrong part counts, misplaced marker, invalid UTF-8 add "
         "nothing; for every arrival list the search sends at 0, 0.5, 1.0 s at most, only while nothing was collected, returns at the "
         "end of the first interval with a response, at the latest at 1.5 s (total by structural recursion), and returns exactly the "
         "distinct valid responses - independently of how the arrivals are listed (duplicated datagrams, order within an instant: C18_search_listing_independent), each answering console counted exactly once (C18_each_answering_console_once); factory ports 9004 / 9005 and names. Tie: the real AirTouchDiscoverer.search() and "
         "factory.discover() on the virtual clock with a fake UDP endpoint, compared with the model and judged by the Spec.",
    design_ref="DESIGN.md section 7, C18",
    technique="Lean 4 proof (model = vendor-format specification for all datagrams and arrival lists) + differential against the real search on a virtual clock",
    note="Real socket binding / broadcast is environment (socket.socket is replaced inside comms.discovery). Datagrams arriving exactly at a request instant are not generated (ordering unspecified).")

CLAIMED["C05"] = dict(
    text="Theorems in Props/C054.lean (AirTouch 4: 2B, 2D, FF11 both record formats, FF12, FF10, FF30) and Props/C055.lean (AirTouch 5: "
         "C021, C023, FF11, FF13, FF10, FF30), for EVERY payload: if the decoder model accepts it, the independent vendor-document "
         "reader (Spec/At4Read, Spec/At5Read - written from the protocol documents without sight of the implementation) reads the same "
         "payload and every field agrees record by record (identity, power, mode, fan, set-point, temperature, damper, flags, limits, "
         "names, membership, error code), with the not-available sentinels absent; records are read at exactly the announced stride "
         "offsets (stride_offsets_*, stride_accepted_*, stride below the known layout rejected); a vendor reading with an undefined "
         "code is rejected by the decoder (undefined_rejected_*). The few byte-exact relaxations (named in ref/SPEC_COMPARISON.md) are "
         "disjuncts of the Agree relations, and the hypotheses the literal statement needs are exhibited by proved counterexamples "
         "(*_needs_length: payload shorter than announced, which the framing layer excludes). AC ability records are read at the "
         "stride their own 'following length' byte announces, for every value of it (decode_agrees_FF11*, *_long_record). The decoder models are tied to the real decoders by the C03 differential; the check also judges the "
         "REAL decoders' output against the vendor reader on every byte value at every record position, every adjacent byte pair "
         "(thorough), all counts and strides.",
    design_ref="DESIGN.md section 7, C05 and section 12",
    technique="Lean 4 proof (decoder model = independent vendor-document reader, for all payloads) + differential of the real decoders against both the model and the vendor reader",
    note=CODEC_NOTE + "Timer status (0x37 / 0xC033) is not in the vendor documents; it is covered by C03/C17 only.")

CLAIMED["C04"] = dict(
    text="Theorems in Props/C04.lean, for EVERY well-formed control message of the four control kinds (AT4 0x2A group, 0x2C AC; AT5 0xC0/0x20 zone, "
         "0xC0/0x22 AC; any record count): the bytes the encoder model produces, read by the independent vendor-document reader, give the "
         "addressed group / zone / AC number, exactly the requested values (set-point tenths, percentage) and `keep` for every field the message "
         "leaves unchanged (encode_reads_*, addresses_*, changes_exactly_*, value_exact_*), and the frame the send-path model writes for ANY "
         "registry message is prefix, to-address 0x80 (0x90 for type 0x1F), from 0xB0, packet id, type, length = payload length, payload and the "
         "Spec CRC-16/MODBUS of address..payload, accepted by the vendor frame reader (frame_bytes/fields/reads_g4/g5, wire_*: message -> frame "
         "-> vendor frame reader -> vendor command reader). Boundary behaviour is exhibited by proved counterexamples (AT5 zone set-points "
         "35.1..35.5 read as keep; numbers beyond the field widths wrap) - all outside the admissible arguments. Which message each public call "
         "produces (only the requested field set, others unchanged; rounding and clamping) is proved over the API models (Props/C11At5, C11At4). "
         "Tie and direct judgement: real AirTouch4/5 objects initialised by a scripted console; every public control call x every enum argument x "
         "temperatures on a 0.05 degC grid from -10 to 60 x dampers -5..105 x AC/zone numbers x ability configurations; the message each accepted "
         "call sends is framed by the real send path and read by the vendor reader; encoders and frames are also tied to the model by the C03 differential.",
    design_ref="DESIGN.md section 7, C04 and section 12",
    technique="Lean 4 proof (encoder model read back by an independent vendor-document reader; frame layout and CRC) + API model theorems + exhaustive-grid judgement of the real API's frames by the vendor reader",
    note=CODEC_NOTE + "Quick-timer and AC-timer control messages are not in the vendor documents: their addressing, length and check bytes are judged, and for time-of-day set / clear calls the record of the AC is read with the upstream layout (requested timer as requested, the other timer exactly as last reported). The AirTouch 5 outer 10-byte header is undocumented (reverse-engineered upstream): judged for consistency with the inner frame only.")

API_NOTE = ("API layer: the enum tables, constants and timeouts of at4/api.py, at5/api.py and api.py are regenerated from the source on every run "
            "(Gen/ApiEnums, Gen/Api4, Gen/Api5); the hand-written state-machine models Model/Api4.lean and Model/Api5.lean (object heap, dictionaries "
            "in Python insertion order, embedded heartbeat model) are tied to the real AirTouch4 / AirTouch5 objects by an op-for-op differential over a "
            "stub socket on a virtual clock (thousands of generated scripts: handshakes with noise, silence, re-init, calls, subscribers, polls). Message "
            "handlers are atomic in the model: interleavings of a suspended handler with other API calls are explored on the real object only (full-stack "
            "harness). Ticks in which two timers are due together are set aside (CPython orders them by heap position). ")

CLAIMED["C11"] = dict(
    text="Theorems in Props/C11At4.lean and Props/C11At5.lean over the API models, for every state and every argument: a power control, mode, fan speed "
         "or zone power state that is not advertised, a damper outside 0..100 or a set-point for a zone without sensor gives ValueError and no send "
         "(one theorem per case); every other call sends exactly one message (call_one_send_or_raise / C11_*_call_one_send_at5) whose content is the "
         "requested attribute with every other field unchanged (exact-send theorems per call), set-points rounded to the resolution (AT4 nearest "
         "integer ties-to-even, AT5 nearest tenth of the double passed in) and, for air-conditioners, clamped into the current [min, max]; setting or "
         "clearing one quick timer re-sends the other exactly as last reported. Direct judgement of the REAL objects, independent of the model: "
         "installations sweeping all 2^5 mode masks and all 2^7 / 2^8 fan masks (thorough: every pair), zones with/without sensor and turbo, all "
         "reported timer states; every call x every enum argument x a fine temperature grid with ties and out-of-range values x dampers -5..105; "
         "refusal exactly when the vendor reading of the ability / status records says so, and each accepted call's frame read by the vendor reader "
         "(meaning as in C04).",
    design_ref="DESIGN.md section 7, C11 and section 12.4",
    technique="Lean 4 proof (API state-machine model: refusal / single send / exact content for all states and arguments) + op-for-op differential of the model against the real objects + independent judgement of the real objects by vendor-reader oracle",
    note=API_NOTE + CODEC_NOTE + "Zone set-points the wire format cannot express (AT5 below 10.0 / above 35.0 degC) are outside the admissible arguments: accepted by the API, then unencodable or read as keep; counted, not judged.")

CLAIMED["C10"] = dict(
    text="Theorems in Props/C10At4.lean and Props/C10At5.lean over the API models: after ANY sequence of status / timer / error / version messages in "
         "the connected state the stored record of every AC and zone object is that of the last message mentioning its number, nothing else about the "
         "object changes, unknown numbers are no-ops (last_writer_wins_*, stored_*, unknown_*); every getter is total on every defined protocol value "
         "(tables_total by kernel evaluation over the tables regenerated from the source; *_getters_total); selected mode / fan report AUTO / "
         "INTELLIGENT_AUTO for the automatic variants while the active getters report the concrete HEAT / COOL and the concrete speed for EVERY protocol "
         "value (C10_active_fan_concrete_at5 - first a _partial/_refuted pair: the pinned table was wrong for one entry, found by this check on the real "
         "object and repaired); limits follow the current mode; error details iff the error code is non-zero; quick-timer time iff enabled. Direct "
         "judgement of the REAL objects against harness/apiref.py (expected public view computed only from the vendor readings of the frames sent so "
         "far): full cross products of power x mode x fan x flags per AC and power x control x sensor x battery x spill per zone, every set-point and damper "
         "code, timers, error code/text sequences, random histories with partial frames, repeats, unknown ids and strides, a view after every frame.",
    design_ref="DESIGN.md section 7, C10 and section 12.4",
    technique="Lean 4 proof (last-writer-wins and getter totality over the API state-machine models, tables regenerated from source) + op-for-op model/implementation differential + independent reference view from vendor readings on the real objects",
    note=API_NOTE + "Where the public docs leave a value open (zone target temperature without sensor, limits in modes other than heat / cool, spill and bypass both set, "
         "battery-low bit without sensor) the reference accepts the documented alternatives; listed in the evidence assumptions.")
CLAIMED["C12"] = dict(
    text="Theorems in Props/C12At4.lean and Props/C12At5.lean over the API models: a subscriber of an entity is notified, with the right identifier, exactly "
         "when a record changes the stored status of that entity (*_notifies_iff_changed / *_notified_iff_changed for AC status, timers, error text, version, "
         "zones), an identical repeat is silent, zone changes reach the owning air-conditioner's general subscribers but not its AC-state-only subscribers, "
         "subscribing twice equals subscribing once, unsubscribing stops the calls, and raising subscribers change nothing (a step-for-step simulation: the "
         "run with every raise flag erased has identical output). Direct judgement of the REAL objects: subscribe / unsubscribe placements anywhere, changed, "
         "partial and byte-identical frames with a view before and after each: notified iff an exposed attribute in the subscriber's scope differs between the "
         "views (both directions), right identifier, no extra or missing calls among sibling subscribers, and every script with raising subscribers re-run "
         "with the same subscribers not raising must give identical views and notifications.",
    design_ref="DESIGN.md section 7, C12 and section 12.4",
    technique="Lean 4 proof (notification iff stored change, subscriber-set algebra, raise-erasure simulation over the API models) + op-for-op differential + view-difference oracle on the real objects",
    note=API_NOTE + "A report that differs only in a field no public attribute shows (timer flag bit, digits of a disabled timer, update sign 1 vs 2) may or may not notify: "
         "the statement forbids invocation only for an identical report; counted in the evidence.")

CLAIMED["C19"] = dict(
    text="Theorems in Props/C19.lean (lemmas in Lemmas/ApiEquiv.lean) relating the two API models through one abstract description of what both "
         "protocols can express (AbsAc / AbsZone with explicit well-formedness conditions and two embeddings into the AT4 and AT5 message models, proved "
         "expressible in both): on objects holding the two embeddings of one abstract entity every getter both generations support returns the same value "
         "(ac_attributes_equal, zone_attributes_equal; the models' VIEW texts are renderings of that projection up to model, resolution and power "
         "controls); a relation between model states is established by `init; conn` on fresh objects and preserved by EVERY pair of embedded messages in "
         "every handshake or connected state (step_rel), so after the handshake and any sequence of embedded status / timer / error / version messages "
         "the projected views are equal (fresh_run_view, view_eq_of_allTurbo); for related states every call with common arguments has the same outcome "
         "in both models - the same error, or one send each with the same retry policy and corresponding meanings under the vendor readers of the C04 "
         "theorems (ac_set_*_alike, zone_set_*_alike, *_same_meaning_on_the_wire); the documented differences are proved as such "
         "(*_documented_difference: resolution and rounding bound, away / sleep, intelligent auto, bypass, per-mode limits). Direct judgement on the "
         "REAL objects: one abstract installation and history rendered byte by byte for each generation, views compared after every frame, calls "
         "accepted / refused alike, frames of accepted calls read by each generation's vendor reader and compared.",
    design_ref="DESIGN.md section 7, C19 and section 12.4",
    technique="Lean 4 proof (simulation relation between the two API models over a common abstract description; call outcomes and wire meanings) + differential of each model against its implementation + cross-generation comparison of the real objects",
    note=API_NOTE + "Outside what both protocols can express, hence outside the quantifier, and proved as explicit theorems rather than hidden: AirTouch 4's per-group turbo-support bit "
         "(AirTouch 5 always offers TURBO), zone set-points outside 10..35 degC (accepted by both APIs, unencodable on AirTouch 5), a lone AirTouch 4 AC without group bitmap owning "
         "every named group, and the order of `zones` within an AirTouch 4 AC (CPython set order of the bitmap). Not covered by the theorems: quick-timer calls, check_for_updates, "
         "shutdown / reconnect / time, subscriptions (covered per generation by C11, C12, C14, C15).")

CLAIMED["C09"] = dict(
    text="Theorems in Props/C09At4.lean and Props/C09At5.lean over the API models: init() opens the socket and waits at most the generated timeout (40 ticks = 5 s); on "
         "the connected notification the first request is sent; a message that is not the awaited answer changes nothing and sends nothing (not_answer_ignored, "
         "no_request_without_answer), the awaited answer sends exactly the next request (answer_advances, one_request_per_answer), so the requests form the fixed "
         "sequence version, names, abilities, AC status, timer status, zone / group status (requests_in_order / request_order) under ARBITRARY interleaved frames; six "
         "answers with any noise in between complete the handshake: CONNECTED, initialised, heartbeat started, nothing raised (handshake_completes); the ACs and zones "
         "exposed are exactly those described, each zone on the right AC - AT4 bitmap, single-AC fallback and start/count ranges, AT5 ranges and the zero-zone echo "
         "addressed to the client (exposed_zones, exposed_air_conditioners, entities_as_described, zero_zones_echo); without the last answer init() returns False "
         "exactly at the deadline, initialised stays false, nothing raises (init_times_out / silence). Props/C09At4b: one end-to-end statement from a fresh object "
         "for every consistent installation and arbitrary noise (handshake_end_to_end_at4) over a proved reachable-state invariant. Props/C09Bytes (cross-layer): "
         "for EVERY segmentation of the console's byte stream - the six answer frames with unknown / duplicate / premature / foreign-addressed frames in between - "
         "the receive-path model delivers exactly the frames sent and the API model completes the handshake with the described object model "
         "(stream_delivers_*, handshake_from_bytes_at4/at5, payload-level variants): C13 + C03 + C09 composed. Direct judgement of the REAL objects: installations 1..4 ACs x "
         "0..16 zones in every zone-to-AC description, ten kinds of interleaved frames at every position, silence after 0..5 answers, connect delays below / above "
         "5 s: request order and placement, result and its instant, and the exposed entities against the vendor reading of the names and ability payloads; full stack (real socket): connect latency below / above 5 s, refusing "
         "network, answers cut into random segments with interleaved frames, and 48 sessions in one process.",
    design_ref="DESIGN.md section 7, C09 and section 12.4",
    technique="Lean 4 proof (handshake state machine of the API models: order, completion under noise, exposure, timeout) + op-for-op differential + independent judgement of the real objects",
    note=API_NOTE + "Consistent consoles only: an AirTouch 4 console with zero groups (its empty names answer is indistinguishable from the request) and a console whose ability record names an "
         "unnamed zone make init() return False after 5 s (KeyError inside the handler, swallowed by the socket) - recorded, outside the quantifier. Byte segmentation of the console's answers is "
         "covered by C13 at the socket and by the full-stack scenarios (segment / interleave options of harness/fullstack.py).")
CLAIMED["C14"] = dict(
    text="Theorems in Props/C14At4.lean and Props/C14At5.lean over the API models: a connected notification in the initialised state sends exactly the AC status request and "
         "the zone / group status request with the CONNECTED policy (reconnect_refresh), a disconnect sends nothing; answers that change nothing notify nobody "
         "(unchanged_*_silent / unchanged_refresh_silent) and changed ones are stored (C10 theorems); AirTouch 4: while connected and no group status has arrived for "
         "2400 ticks a group status request is sent, again every 2400 ticks for as long as the silence lasts (poll_requests: closed-form count over any `adv n`; "
         "poll_at_deadline), a received group status re-arms the timer (group_status_rearms), nothing is sent while disconnected; AirTouch 5 never polls "
         "(no_poll_loop: every output of any `adv` is an init result, a heartbeat request or a heartbeat reset). Direct judgement of the REAL objects: histories with "
         "up to three outages of 0..9000 ticks at any moment, console changes while disconnected, refresh answered in either order / partly / not at all with noise, "
         "silences up to 12100 ticks: both requests in the reconnecting op, views equal to a client freshly initialised against the console's present state, no "
         "notification for unchanged data, AT4 polls in exactly the ops containing t + 2400k; shutdown + re-init histories; full stack with a console that has "
         "memory (it answers AC status and error-information requests from its current state): the AC error changes during the outage and the client must end "
         "with the new code and ITS description.",
    design_ref="DESIGN.md section 7, C14 and section 12.4",
    technique="Lean 4 proof (refresh on reconnection, silence-poll timing in closed form, silence on unchanged data over the API models) + op-for-op differential + independent judgement of the real objects",
    note=API_NOTE + "The closed-form poll count assumes no orphaned poll task (O12: only after repeated init() without shutdown()). After an outage the phase of the AT4 poll is not prescribed by the "
         "statement: judged as 'no more than 300 s of connected silence without a request, no poll within 300 s of a received frame'. The reconnection itself is the socket's job (C07).")

NOT_YET = {
}

ALL = ["C%02d" % i for i in range(1, 20)]


def main():
    checks = []
    for pid in ALL:
        if pid in CLAIMED:
            c = CLAIMED[pid]
            checks.append({
                "property_id": pid,
                "quick_cmd": "./check %s --tier quick" % pid,
                "thorough_cmd": "./check %s --tier thorough" % pid,
                "evidence_file": "evidence/%s.json" % pid,
                "replay_cmd_template": "./check %s --replay {path}" % pid,
                "engine": "lean4-proof+correspondence",
                "level_claimed": {"category": "proof", "text": c["text"], "design_ref": c["design_ref"]},
                "level_note": LEVEL_NOTE + c.get("note", ""),
                "technique": c["technique"],
            })
    na = [{"property_id": pid, "reason": NOT_YET.get(pid, "check not built yet in this round (model and theorems pending); no claim is made")}
          for pid in ALL if pid not in CLAIMED]
    man = {
        "version": 1,
        "setup_cmd": "./check --setup",
        "hooks": {
            "guard": "PYAIRTOUCH_VERIF",
            "enable": "no source hooks are needed: the harness intercepts asyncio.open_connection / stream objects from outside",
            "baseline_off_cmd": "cd /repo && /venv/bin/python -m pytest -ra -q -p no:cacheprovider --timeout=900 --continue-on-collection-errors",
            "source_commits": [],
            "add_only": True,
        },
        "engines": [{
            "name": "lean4-proof+correspondence",
            "path": "lean/ translate/ harness/",
            "serves_properties": sorted(CLAIMED),
            "kind_free_text": "Lean 4 model (Gen regenerated from /repo each run + hand-written Model), theorems in Props/, "
                              "Spec-only oracle, differential/trace correspondence against the real package",
        }],
        "checks": checks,
        "not_applicable": na,
        "notes": "See DESIGN.md. Exit 2 = infrastructure failure/timeout (not a violation; VERIF_TIMEOUT seconds, default 3600 quick / 14400 thorough). "
                 "known_findings.txt lists the genuine defects of the pinned tree that were repaired (`fixed:`) and those recorded without repair "
                 "(`finding:`, reported as KNOWN-FINDING lines by C05, C08, C10, C11, C14, C15; each keyed to its exact history, anything else is a VIOLATION).",
    }
    with open(os.path.join(VERIF, "MANIFEST.json"), "w") as f:
        json.dump(man, f, indent=1)
    print("MANIFEST.json: %d claimed, %d not_applicable" % (len(checks), len(na)))


if __name__ == "__main__":
    main()
