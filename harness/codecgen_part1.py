"""Structured payload generators for the AirTouch 4 group control (2A), AC control (2C) and AC status (2D)
modules: records assembled field by field (valid enum codes most of the time, every temperature /
set-point / error-code range, non-zero padding bytes), several records, plus malformed payloads
(truncated, header length not a multiple of the record size, header announcing more or fewer records
than supplied)."""
import struct


def _pick(rng, good, width, p_good=0.9):
    """a field code: mostly one of the defined ones, sometimes anything that fits `width` bits"""
    if rng.random() < p_good:
        return rng.choice(good)
    return rng.randrange(1 << width)


def _pad(rng):
    return rng.choice([0, 0, 0, 0xFF, rng.randrange(256)])


def _edge(rng, bits):
    top = (1 << bits) - 1
    return rng.choice([0, 1, top, top - 1, top >> 1, (top >> 1) + 1, rng.randrange(top + 1), rng.randrange(top + 1)])


def _mangle(rng, data, rec, announce_records):
    """(payload, [message_length]) with the occasional inconsistency between the two"""
    ln = len(data)
    r = rng.random()
    if r < 0.05 and data:
        data = data[:-rng.randint(1, min(rec, len(data)))]        # truncated buffer, header unchanged
    elif r < 0.09:
        data = data + bytes(rng.randrange(256) for _ in range(rng.randint(1, rec + 3)))  # trailing bytes
    elif r < 0.13:
        ln = ln + rng.choice([1, 2, rec - 1, rec, 2 * rec])       # header announces more
    elif r < 0.17:
        ln = max(0, ln - rng.choice([1, rec - 1, rec, 2 * rec]))  # header announces less
    elif r < 0.19:
        ln = 0
    elif r < 0.21:
        ln = rng.choice([1, 7, 9, 255, 256, 65535])
    if not announce_records and rng.random() < 0.5:
        ln = rng.choice([0, 1, 3, 4, 5, 8, 400])                  # decoder ignores the header length
    return bytes(data), [ln]


# ---------------------------------------------------------------------------------------------- 2A
def gen_2a(rng):
    recs = rng.choice([1, 1, 1, 1, 2, 0])
    out = bytearray()
    for _ in range(recs):
        group = _edge(rng, 8)
        setting = _pick(rng, [0, 2, 3, 4, 5], 3, 0.85)
        method = rng.randrange(4)
        power = _pick(rng, [0, 1, 2, 3, 5], 3, 0.9)
        value = _edge(rng, 8)
        out += bytes([group, (setting << 5) | (method << 3) | power, value, _pad(rng)])
    return _mangle(rng, out, 4, False)


# ---------------------------------------------------------------------------------------------- 2C
def gen_2c(rng):
    recs = rng.choice([1, 1, 1, 1, 2, 0])
    out = bytearray()
    for _ in range(recs):
        power = rng.randrange(4)
        ac = _edge(rng, 6)
        mode = _pick(rng, [0, 1, 2, 3, 4, 15], 4, 0.7)
        fan = _pick(rng, [0, 1, 2, 3, 4, 5, 6, 15], 4, 0.7)
        ctl = rng.randrange(4)
        value = rng.choice([0x3F, 0, _edge(rng, 6)])
        out += bytes([(power << 6) | ac, (mode << 4) | fan, (ctl << 6) | value, _pad(rng)])
    return _mangle(rng, out, 4, False)


# ---------------------------------------------------------------------------------------------- 2D
def gen_2d(rng):
    recs = rng.choice([0, 1, 1, 1, 2, 2, 3, 4, 8, 16])
    p_good = rng.choice([1.0, 1.0, 0.97, 0.9])
    out = bytearray()
    for _ in range(recs):
        power = _pick(rng, [0, 1], 2, p_good)
        ac = _edge(rng, 6)
        mode = _pick(rng, [0, 1, 2, 3, 4, 8, 9], 4, p_good)
        fan = _pick(rng, [0, 1, 2, 3, 4, 5, 6], 4, p_good)
        b3 = (rng.randrange(4) << 6) | _edge(rng, 6)
        raw_temp = rng.choice([_edge(rng, 11), 500, 499, 501, 715, rng.randrange(2048)])
        temp = (raw_temp << 5) | rng.choice([0, 0, 0x1F, rng.randrange(32)])
        err = _edge(rng, 16)
        out += struct.pack("!BBBBHH", (power << 6) | ac, (mode << 4) | fan, b3, _pad(rng), temp, err)
    return _mangle(rng, out, 8, True)


GENERATORS = {
    (4, "2A"): gen_2a,
    (4, "2C"): gen_2c,
    (4, "2D"): gen_2d,
}
